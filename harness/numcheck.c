/*
 * numcheck - C10: exhaustive families of number text <-> double conversions, oracle = glibc strtod / printf (exact,
 * correctly rounded, shares no code with the library's bignum routines).  usage: numcheck <tier> <nworkers> <worker>
 * Prints "V <family> <text>" per violation (capped) and "S <family> <evaluations> <nontrivial>" per family.
 */
#include <stdio.h>
#include <stdlib.h>
#include <string.h>
#include <math.h>
#include <float.h>
#include <fenv.h>
#include <stdint.h>
#include <stdarg.h>
#include "cif.h"
#include "internal/ciftypes.h"

static int NW = 1, WK = 0, THOROUGH = 0;
static long nviol = 0;
#define MAXV 40

static void viol(const char *fam, const char *fmt, ...) {
    va_list ap;
    nviol++;
    if (nviol > MAXV) return;
    printf("V %s ", fam);
    va_start(ap, fmt); vprintf(fmt, ap); va_end(ap);
    printf("\n");
}

static UChar *u_of(const char *s) {
    size_t n = strlen(s), i; UChar *u = (UChar *) malloc((n + 1) * sizeof(UChar));
    for (i = 0; i <= n; i++) u[i] = (UChar)(unsigned char) s[i];
    return u;
}
static void a_of(const UChar *u, char *out, size_t cap) {
    size_t i; for (i = 0; u[i] && i + 1 < cap; i++) out[i] = (char) u[i]; out[i] = 0;
}

/* ---------- independent acceptance predicate: [+-]? (d+ (. d*)? | . d+) ([eE] [+-]? d+)? ( '(' d+ ')' )? ---------- */
static int is_d(char c) { return c >= '0' && c <= '9'; }
static int accepts(const char *s, int *val_end) {
    int i = 0, nd = 0;
    if (s[i] == '+' || s[i] == '-') i++;
    while (is_d(s[i])) { i++; nd++; }
    if (s[i] == '.') { i++; while (is_d(s[i])) { i++; nd++; } }
    if (nd == 0) return 0;
    if (s[i] == 'e' || s[i] == 'E') {
        int j = i + 1, ne = 0;
        if (s[j] == '+' || s[j] == '-') j++;
        while (is_d(s[j])) { j++; ne++; }
        if (ne == 0) return 0;
        i = j;
    }
    *val_end = i;
    if (s[i] == '(') {
        int j = i + 1, ns = 0;
        while (is_d(s[j])) { j++; ns++; }
        if (ns == 0 || s[j] != ')') return 0;
        i = j + 1;
    }
    return s[i] == 0;
}

static int judged(double d) { return d == 0.0 || (isfinite(d) && fabs(d) >= DBL_MIN); }

/* oracle for the standard uncertainty of accepted text: su digits scaled to the last digit of the value */
static double su_oracle(const char *s, int val_end) {
    /* value part s[0..val_end): count decimals and exponent */
    char buf[4200]; int i = 0, dec = 0, seen = 0; long ex = 0; const char *p;
    if (s[val_end] != '(') return 0.0;
    if (s[i] == '+' || s[i] == '-') i++;
    for (; i < val_end && s[i] != 'e' && s[i] != 'E'; i++) { if (s[i] == '.') seen = 1; else if (seen) dec++; }
    if (i < val_end) ex = strtol(s + i + 1, NULL, 10);
    p = s + val_end + 1;
    snprintf(buf, sizeof buf, "%.*se%ld", (int) (strchr(p, ')') - p), p, ex - dec);
    return strtod(buf, NULL);
}

/* check one text that must be accepted: number and su against strtod */
static void check_text(const char *fam, const char *s, long *nontrivial) {
    cif_value_tp *v = NULL; UChar *u; int rc, ve = 0; double want, got = -1, wsu, gsu = -1; char vbuf[4200];
    if (!accepts(s, &ve)) { viol(fam, "generator produced a non-number %s", s); return; }
    if (cif_value_create(CIF_UNK_KIND, &v) != CIF_OK) { viol(fam, "create failed"); return; }
    u = u_of(s);
    rc = cif_value_parse_numb(v, u);
    if (rc != CIF_OK) { viol(fam, "parse_numb(\"%s\") returned %d", s, rc); free(u); cif_value_free(v); return; }
    memcpy(vbuf, s, ve); vbuf[ve] = 0;
    want = strtod(vbuf, NULL);
    if (want == 0.0) {
        /* zero is judged only when the text denotes exactly zero (a tiny non-zero magnitude is outside the property) */
        int k2; for (k2 = 0; vbuf[k2] && vbuf[k2] != 'e' && vbuf[k2] != 'E'; k2++) if (vbuf[k2] >= '1' && vbuf[k2] <= '9') want = 5e-324;
    }
    if (judged(want)) {
        rc = cif_value_get_number(v, &got);
        if (rc != CIF_OK || memcmp(&got, &want, sizeof got) != 0) {
            if (!(got == 0.0 && want == 0.0))   /* the sign of zero is not pinned down */
                viol(fam, "get_number(\"%s\") = %.17g (rc %d), correctly rounded value is %.17g", vbuf, got, rc, want);
        }
        if (want != 0.0) (*nontrivial)++;
    }
    wsu = su_oracle(s, ve);
    if (judged(wsu)) {
        rc = cif_value_get_su(v, &gsu);
        if (rc != CIF_OK || (gsu != wsu)) viol(fam, "get_su(\"%s\") = %.17g (rc %d), correctly rounded value is %.17g", s, gsu, rc, wsu);
    }
    cif_value_free(v);
}

/* ---------- family A: acceptance, all strings up to length L over a small alphabet ---------- */
static void family_accept(int L) {
    static const char alpha[] = "019+-.eE()x";
    int n = (int) strlen(alpha), len; long evals = 0, nontriv = 0, idx = 0;
    for (len = 0; len <= L; len++) {
        long total = 1, k; int i;
        for (i = 0; i < len; i++) total *= n;
        for (k = 0; k < total; k++, idx++) {
            char s[16]; long t = k; cif_value_tp *v = NULL; UChar *u, *keep; int rc, ve, acc;
            if (idx % NW != WK) continue;
            for (i = len - 1; i >= 0; i--) { s[i] = alpha[t % n]; t /= n; }
            s[len] = 0;
            evals++;
            acc = accepts(s, &ve);
            if (cif_value_create(CIF_UNK_KIND, &v) != CIF_OK) continue;
            keep = u_of("keep");
            if (cif_value_init_char(v, keep) != CIF_OK) { free(keep); cif_value_free(v); continue; }
            u = u_of(s);
            rc = cif_value_parse_numb(v, u);
            if (acc) {
                nontriv++;
                if (rc != CIF_OK) viol("accept", "\"%s\" is a number but parse_numb returned %d", s, rc);
                else {
                    UChar *t2 = NULL; char back[32];
                    if (cif_value_kind(v) != CIF_NUMB_KIND) viol("accept", "\"%s\": kind %d after a successful parse", s, (int) cif_value_kind(v));
                    if (cif_value_get_text(v, &t2) == CIF_OK && t2) { a_of(t2, back, sizeof back); if (strcmp(back, s)) viol("accept", "\"%s\": text reads back as \"%s\"", s, back); free(t2); }
                    /* value and su of the short strings */
                    {
                        double want, got = -1, wsu, gsu = -1; char vb[16];
                        memcpy(vb, s, ve); vb[ve] = 0; want = strtod(vb, NULL);
                        if (judged(want) && (cif_value_get_number(v, &got) != CIF_OK || (got != want)))
                            viol("accept", "get_number(\"%s\") = %.17g, expected %.17g", s, got, want);
                        wsu = su_oracle(s, ve);
                        if (judged(wsu) && (cif_value_get_su(v, &gsu) != CIF_OK || gsu != wsu))
                            viol("accept", "get_su(\"%s\") = %.17g, expected %.17g", s, gsu, wsu);
                    }
                }
            } else {
                if (rc != CIF_INVALID_NUMBER) viol("accept", "\"%s\" is not a number but parse_numb returned %d", s, rc);
                else {
                    UChar *t2 = NULL; char back[32] = "";
                    if (cif_value_kind(v) != CIF_CHAR_KIND || cif_value_get_text(v, &t2) != CIF_OK || !t2 || (a_of(t2, back, sizeof back), strcmp(back, "keep")))
                        viol("accept", "refusing \"%s\" modified the value object (kind %d text \"%s\")", s, (int) cif_value_kind(v), back);
                    if (t2) free(t2);
                }
                /* the same refusal into a value that already is a number: text, value and su stay what they were */
                {
                    cif_value_tp *w = NULL; UChar *old = u_of("-2.50(25)"), *t3 = NULL; char back[32] = ""; double g = 0, gs = 0; int rc2;
                    if (cif_value_create(CIF_UNK_KIND, &w) == CIF_OK) {
                        if (cif_value_parse_numb(w, old) == CIF_OK) {
                            UChar *u2 = u_of(s);
                            old = NULL;
                            rc2 = cif_value_parse_numb(w, u2);
                            if (rc2 != CIF_OK) free(u2);
                            if (rc2 != CIF_INVALID_NUMBER) viol("accept", "\"%s\" is not a number but parse_numb into a number value returned %d", s, rc2);
                            else if (cif_value_kind(w) != CIF_NUMB_KIND || cif_value_get_text(w, &t3) != CIF_OK || !t3 || (a_of(t3, back, sizeof back), strcmp(back, "-2.50(25)"))
                                    || cif_value_get_number(w, &g) != CIF_OK || g != -2.5 || cif_value_get_su(w, &gs) != CIF_OK || gs != 0.25)
                                viol("accept", "refusing \"%s\" modified the number -2.50(25) it was to replace (kind %d text \"%s\" value %.17g su %.17g)", s, (int) cif_value_kind(w), back, g, gs);
                            if (t3) free(t3);
                        }
                        cif_value_free(w);
                    }
                    if (old) free(old);
                }
            }
            if (rc != CIF_OK) free(u);
            cif_value_free(v);
        }
    }
    if (WK == 0) {
        /* syntactically valid numbers with very long exponents / digit strings (values out of range are not judged) */
        static const char *big[] = { "1e99999999999", "1e-99999999999", "1e2147483647", "1e2147483648", "1e-2147483649", "1.5e+4294967296(3)", "0e99999999999999999999",
                                     "123456789012345678901234567890e-99999999999999999999" };
        size_t b; for (b = 0; b < sizeof big / sizeof big[0]; b++) { evals++; check_text("accept-long-exponent", big[b], &nontriv); }
    }
    printf("S accept %ld %ld\n", evals, nontriv);
}

/* ---------- family B: grid of short mantissas x all exponents ---------- */
static void family_grid(int maxdigits) {
    long evals = 0, nontriv = 0, idx = 0; int nd, ex;
    for (nd = 1; nd <= maxdigits; nd++) {
        long lo = 1, hi = 1, m; int i;
        for (i = 1; i < nd; i++) lo *= 10;
        hi = lo * 10;
        if (nd == 1) lo = 0;
        for (m = lo; m < hi; m++) {
            int pt;
            for (pt = 0; pt <= nd; pt++) {          /* position of the decimal point (0 = none written) */
                for (ex = -330; ex <= 310; ex++, idx++) {
                    char dig[16], s[48];
                    if (idx % NW != WK) continue;
                    snprintf(dig, sizeof dig, "%0*ld", nd, m);
                    if (pt == 0) snprintf(s, sizeof s, "%se%d", dig, ex);
                    else snprintf(s, sizeof s, "%.*s.%se%d", pt, dig, dig + pt, ex);
                    evals++;
                    check_text("grid", s, &nontriv);
                    if ((m % 7) == 3 && (ex % 5) == 0) {
                        char t[64]; snprintf(t, sizeof t, "%s(%ld)", s, (m % 97) + 1);
                        { /* su goes after the exponent in CIF: d.ddde+xx(s) */ }
                        evals++; check_text("grid-su", t, &nontriv);
                    }
                }
            }
        }
    }
    printf("S grid %ld %ld\n", evals, nontriv);
}

/* ---------- family B2: every spelling of the exponent field: sign written or not, e / E, zero padding of any width ---------- */
static void family_expspell(void) {
    static const char *mant[] = { "1", "2.5", "-7.25", ".5", "15." };
    static const int pads[] = { 0, 1, 2, 3, 5, 7, 8, 9, 10, 11, 12, 14, 20, 40 };
    long evals = 0, nontriv = 0, idx = 0; int mi, ex, pi, sp, up;
    for (mi = 0; mi < 5; mi++) for (ex = -330; ex <= 310; ex++) for (pi = 0; pi < 14; pi++) for (sp = 0; sp < 2; sp++) for (up = 0; up < 2; up++, idx++) {
        char s[96], z[48]; int a = ex < 0 ? -ex : ex;
        if (idx % NW != WK) continue;
        if (sp && ex < 0) continue;                 /* sp: write the plus sign of a non-negative exponent */
        if (up && (pi % 3)) continue;
        memset(z, '0', (size_t) pads[pi]); z[pads[pi]] = 0;
        snprintf(s, sizeof s, "%s%c%s%s%d", mant[mi], up ? 'E' : 'e', ex < 0 ? "-" : (sp ? "+" : ""), z, a);
        evals++; check_text("exponent-spelling", s, &nontriv);
        if ((ex % 10) == 0) { char t[112]; snprintf(t, sizeof t, "%s(%d)", s, 3 + pi); evals++; check_text("exponent-spelling-su", t, &nontriv); }
    }
    printf("S exponent-spelling %ld %ld\n", evals, nontriv);
}

/* ---------- exact decimal strings ---------- */
/* exact decimal expansion of |x|: integer part in ip, fraction (1100 digits) in fp */
static void exact_dec(double x, char *ip, char *fp) {
    static char buf[1500]; char *dot;
    snprintf(buf, sizeof buf, "%.1100f", fabs(x));
    dot = strchr(buf, '.');
    *dot = 0;
    strcpy(ip, buf); strcpy(fp, dot + 1);
}
/* a += b for equal-length digit strings with the same point position; returns carry */
static int dec_add(char *a, const char *b) {
    int i, c = 0;
    for (i = (int) strlen(a) - 1; i >= 0; i--) { int t = (a[i] - '0') + (b[i] - '0') + c; a[i] = (char) ('0' + t % 10); c = t / 10; }
    return c;
}

/* ---------- family C: every binade: value, exact tie with its successor, tie +- 1 in the last digit ---------- */
static void family_ties(void) {
    static const uint64_t mant[] = { 0, 1, 0xFFFFFFFFFFFFFull, 0x8000000000000ull, 0xAAAAAAAAAAAAAull, 0x5555555555555ull, 0xFFFFFFFFFFFFEull };
    long evals = 0, nontriv = 0, idx = 0; int e; size_t mi;
    for (e = -1022; e <= 1023; e++) {
        for (mi = 0; mi < sizeof mant / sizeof mant[0]; mi++, idx++) {
            uint64_t bits = ((uint64_t) (e + 1023) << 52) | mant[mi]; double x, half;
            static char ip[400], fp[1200], hip[400], hfp[1200], full[1700], s[1800]; size_t li, k;
            if (idx % NW != WK) continue;
            if (!THOROUGH && (e % 8) != 0 && e > -1015 && e < 1016 && (e < -8 || e > 60)) continue;
            memcpy(&x, &bits, sizeof x);
            half = ldexp(1.0, e - 53);               /* half an ulp: exact (may be subnormal, still exact) */
            if (half == 0.0) continue;
            exact_dec(x, ip, fp); exact_dec(half, hip, hfp);
            /* value itself, three spellings of the exponent */
            snprintf(s, sizeof s, "%s.%s", ip, fp); k = strlen(s); while (s[k - 1] == '0') s[--k] = 0; if (s[k - 1] == '.') s[--k] = 0;
            if (strlen(s) < 2040) { evals++; check_text("binade-value", s, &nontriv); }
            /* tie = x + half: pad integer parts to equal length */
            li = strlen(ip) > strlen(hip) ? strlen(ip) : strlen(hip);
            snprintf(full, sizeof full, "%0*d%s%s", (int) (li - strlen(ip)), 0, ip, fp);
            if (li == strlen(ip)) snprintf(full, sizeof full, "%s%s", ip, fp);
            else { memset(full, '0', li - strlen(ip)); strcpy(full + (li - strlen(ip)), ip); strcat(full, fp); }
            { static char h2[1700]; if (li == strlen(hip)) snprintf(h2, sizeof h2, "%s%s", hip, hfp); else { memset(h2, '0', li - strlen(hip)); strcpy(h2 + (li - strlen(hip)), hip); strcat(h2, hfp); }
              if (dec_add(full, h2)) continue; }
            k = strlen(full); while (k > li && full[k - 1] == '0') full[--k] = 0;
            if (k + 8 > 2040) continue;              /* beyond a line's worth of digits */
            /* exact tie */
            snprintf(s, sizeof s, "%.*s.%s", (int) li, full, full + li); if (s[strlen(s) - 1] == '.') strcat(s, "0");
            evals++; check_text("tie", s, &nontriv);
            /* tie with an exponent: move the point */
            if (k > li) { snprintf(s, sizeof s, "%se-%d", full, (int) (k - li)); evals++; check_text("tie-exp", s, &nontriv); }
            /* just above / just below the tie (last digit +-1) */
            { char save = full[k - 1];
              if (save != '9') { full[k - 1] = (char) (save + 1); snprintf(s, sizeof s, "%.*s.%s", (int) li, full, full + li); evals++; check_text("tie-above", s, &nontriv); }
              if (save != '0') { full[k - 1] = (char) (save - 1); snprintf(s, sizeof s, "%.*s.%s", (int) li, full, full + li); evals++; check_text("tie-below", s, &nontriv); }
              full[k - 1] = save;
              /* an extra digit far to the right decides */
              if (k + 3 < 2040) { snprintf(s, sizeof s, "%.*s.%s1", (int) li, full, full + li); evals++; check_text("tie-above", s, &nontriv); }
            }
            /* 17 significant digit round-trip spelling of the same double */
            snprintf(s, sizeof s, "%.16e", x); evals++; check_text("roundtrip17", s, &nontriv);
            snprintf(s, sizeof s, "%.18e", x); evals++; check_text("roundtrip19", s, &nontriv);
        }
    }
    /* bignum digit-group boundaries 10^(9k) +- 1 */
    { int k; for (k = 1; k <= 34; k++) { static char s[400]; int i;
        if ((idx++) % NW != WK) continue;
        s[0] = '1'; for (i = 1; i <= 9 * k; i++) s[i] = '0'; s[i] = 0; evals++; check_text("pow10", s, &nontriv);
        s[9 * k] = '1'; evals++; check_text("pow10", s, &nontriv);
        for (i = 0; i < 9 * k; i++) s[i] = '9'; s[i] = 0; evals++; check_text("pow10", s, &nontriv);
        snprintf(s, sizeof s, "0.%0*d1", 9 * k - 1, 0); evals++; check_text("pow10", s, &nontriv);
    } }
    printf("S ties %ld %ld\n", evals, nontriv);
}

/* ---------- family D: double -> text ---------- */
/* round the exact value of |x| half-even to `scale` decimals; result: integer digit string N (no leading zeros, "0" if zero) */
static void round_at(double x, int scale, char *N, size_t cap) {
    static char ip[400], fp[1200], D[1700]; long p, k, i; int up = 0;
    exact_dec(x, ip, fp);
    snprintf(D, sizeof D, "%s%s", ip, fp); p = (long) strlen(ip); k = p + scale;
    if (k < 0) { strcpy(N, "0"); return; }
    if (k > (long) strlen(D)) k = (long) strlen(D);
    /* remainder D[k:] compared with 5000... */
    if (D[k]) {
        if (D[k] > '5') up = 1;
        else if (D[k] == '5') {
            int rest = 0; for (i = k + 1; D[i]; i++) if (D[i] != '0') { rest = 1; break; }
            if (rest) up = 1; else up = (k > 0) ? ((D[k - 1] - '0') & 1) : 0;
        }
    }
    if (k == 0) { strcpy(N, up ? "1" : "0"); return; }
    { static char T[1700]; memcpy(T + 1, D, k); T[0] = '0'; T[k + 1] = 0;
      if (up) { for (i = k; i >= 0; i--) { if (T[i] == '9') T[i] = '0'; else { T[i]++; break; } } }
      i = 0; while (T[i] == '0' && T[i + 1]) i++;
      snprintf(N, cap, "%s", T + i); }
}

/* parse a number text independently into (neg, mantissa digits without point and leading zeros, power of ten of the last digit, su digits) */
static int split_text(const char *s, int *neg, char *M, int *last_pow, char *S, int *has_e) {
    int i = 0, dec = 0, seen = 0, m = 0; long ex = 0;
    *neg = 0; *has_e = 0; S[0] = 0;
    if (s[i] == '-') { *neg = 1; i++; } else if (s[i] == '+') i++;
    for (; is_d(s[i]) || s[i] == '.'; i++) { if (s[i] == '.') { if (seen) return 0; seen = 1; } else { M[m++] = s[i]; if (seen) dec++; } }
    M[m] = 0; if (m == 0) return 0;
    if (s[i] == 'e' || s[i] == 'E') { char *end; *has_e = 1; ex = strtol(s + i + 1, &end, 10); if (end == s + i + 1) return 0; i = (int) (end - s); }
    if (s[i] == '(') { int j = 0; i++; while (is_d(s[i])) S[j++] = s[i++]; S[j] = 0; if (s[i] != ')' || j == 0) return 0; i++; }
    if (s[i]) return 0;
    *last_pow = (int) (ex - dec);
    { int z = 0; while (M[z] == '0' && M[z + 1]) z++; memmove(M, M + z, strlen(M + z) + 1); }
    { int z = 0; while (S[z] == '0' && S[z + 1]) z++; memmove(S, S + z, strlen(S + z) + 1); }
    return 1;
}

static void check_init(const char *fam, double val, double su, int scale, int maxlz, long *nontriv) {
    cif_value_tp *v = NULL; int rc; UChar *t = NULL; static char txt[2600], N[1700], SN[1700], M[2600], S[2600]; int neg, lp, has_e;
    if (cif_value_create(CIF_UNK_KIND, &v) != CIF_OK) return;
    rc = cif_value_init_numb(v, val, su, scale, maxlz);
    round_at(val, scale, N, sizeof N); round_at(su, scale, SN, sizeof SN);
    if (rc != CIF_OK) { viol(fam, "init_numb(%.17g, %.17g, %d, %d) returned %d", val, su, scale, maxlz, rc); cif_value_free(v); return; }
    if (cif_value_get_text(v, &t) != CIF_OK || !t) { viol(fam, "no text after init_numb(%.17g,...)", val); cif_value_free(v); return; }
    a_of(t, txt, sizeof txt); free(t);
    (*nontriv)++;
    if (!split_text(txt, &neg, M, &lp, S, &has_e)) viol(fam, "init_numb(%.17g, %.17g, %d, %d) produced \"%s\", not a CIF number", val, su, scale, maxlz, txt);
    else {
        if (strcmp(M, N) != 0 || lp != -scale)
            viol(fam, "init_numb(%.17g, %.17g, scale %d, %d) produced \"%s\" = %s x 10^%d; the correctly rounded value at that scale is %s x 10^%d", val, su, scale, maxlz, txt, M, lp, N, -scale);
        if (strcmp(N, "0") != 0 && neg != (val < 0)) viol(fam, "init_numb(%.17g,...) produced \"%s\": wrong sign", val, txt);
        /* an su that rounds to zero: cif.h says the number is then exact (no su); "(0)" denotes the same and is admitted */
        if (strcmp(SN, "0") == 0 ? (S[0] != 0 && strcmp(S, "0") != 0) : strcmp(S, SN) != 0)
            viol(fam, "init_numb(%.17g, su %.17g, scale %d, %d) produced \"%s\"; the correctly rounded uncertainty is (%s)", val, su, scale, maxlz, txt, SN);
        /* notation: scientific iff scale < 0 or more than maxlz leading zeroes after the decimal point */
        if (strcmp(N, "0") != 0) {
            int lz = scale - (int) strlen(N);       /* zeroes between the point and the first significant digit */
            int want_sci = (scale < 0) || (lz > maxlz);
            if (want_sci != has_e) viol(fam, "init_numb(%.17g, %.17g, scale %d, max_leading_zeroes %d) produced \"%s\": %s notation expected", val, su, scale, maxlz, txt, want_sci ? "scientific" : "plain decimal");
        }
        /* parses back to the same digits, scale and su */
        { cif_value_tp *w = NULL; UChar *u = u_of(txt);
          if (cif_value_create(CIF_UNK_KIND, &w) == CIF_OK) {
              if (cif_value_parse_numb(w, u) != CIF_OK) { viol(fam, "text \"%s\" does not parse back", txt); free(u); }
              else if (strcmp(w->as_numb.digits, v->as_numb.digits[0] ? v->as_numb.digits : "0") || w->as_numb.scale != v->as_numb.scale
                       || strcmp((w->as_numb.su_digits && strcmp(w->as_numb.su_digits, "0")) ? w->as_numb.su_digits : "", (v->as_numb.su_digits && strcmp(v->as_numb.su_digits, "0")) ? v->as_numb.su_digits : ""))
                  viol(fam, "\"%s\" parses back to digits %s scale %d su %s, the object holds %s / %d / %s", txt, w->as_numb.digits, w->as_numb.scale,
                       w->as_numb.su_digits ? w->as_numb.su_digits : "-", v->as_numb.digits, v->as_numb.scale, v->as_numb.su_digits ? v->as_numb.su_digits : "-");
              cif_value_free(w);
          } }
        if (strcmp(v->as_numb.digits[0] ? v->as_numb.digits : "0", N) != 0 || v->as_numb.scale != scale) viol(fam, "init_numb(%.17g, scale %d): object digits %s scale %d, expected %s / %d", val, scale, v->as_numb.digits, v->as_numb.scale, N, scale);
    }
    cif_value_free(v);
}

static void check_auto(const char *fam, double val, double su, unsigned rule, long *nontriv) {
    cif_value_tp *v = NULL; int rc, scale, s; UChar *t = NULL; static char txt[2600], N[1700], SN[1700], SN2[1700], M[2600], S[2600]; int neg, lp, has_e;
    if (cif_value_create(CIF_UNK_KIND, &v) != CIF_OK) return;
    rc = cif_value_autoinit_numb(v, val, su, rule);
    if (rc != CIF_OK) { viol(fam, "autoinit_numb(%.17g, %.17g, %u) returned %d", val, su, rule, rc); cif_value_free(v); return; }
    if (cif_value_get_text(v, &t) != CIF_OK || !t) { viol(fam, "no text"); cif_value_free(v); return; }
    a_of(t, txt, sizeof txt); free(t);
    (*nontriv)++;
    if (!split_text(txt, &neg, M, &lp, S, &has_e)) { viol(fam, "autoinit_numb(%.17g, %.17g, %u) produced \"%s\", not a CIF number", val, su, rule, txt); cif_value_free(v); return; }
    /* expected scale: the largest s with round(su x 10^s) <= rule */
    scale = -400;
    for (s = 330; s >= -310; s--) { round_at(su, s, SN, sizeof SN); if (strlen(SN) < 12 && strtoul(SN, NULL, 10) <= rule && strcmp(SN, "0") != 0) { scale = s; break; } }
    if (scale == -400) { cif_value_free(v); return; }
    round_at(su, scale, SN, sizeof SN); round_at(val, scale, N, sizeof N); round_at(su, scale + 1, SN2, sizeof SN2);
    if (lp != -scale || strcmp(S, SN) != 0 || strcmp(M, N) != 0)
        viol(fam, "autoinit_numb(%.17g, su %.17g, rule %u) produced \"%s\"; expected digits %s(%s) x 10^%d (largest scale whose rounded su <= rule)", val, su, rule, txt, N, SN, -scale);
    if (strcmp(N, "0") != 0) {
        int lz = scale - (int) strlen(N); int want_sci = (scale < 0) || (lz > 5);
        if (want_sci != has_e) viol(fam, "autoinit_numb(%.17g, %.17g, %u) produced \"%s\": %s notation expected", val, su, rule, txt, want_sci ? "scientific" : "plain decimal");
    }
    { double back = 0, bsu = 0; if (cif_value_get_number(v, &back) != CIF_OK || cif_value_get_su(v, &bsu) != CIF_OK) viol(fam, "\"%s\": get_number/get_su failed", txt); }
    cif_value_free(v);
}

static void family_format(void) {
    static const double classics[] = { 0.1, 0.125, 2.5, 0.5, 9.995, 99.5, 1e21, 1e-7, 1.0, 17.25, 123456.789, 0.000123456, 3.0e-5, 2.5e15, 1.5, 0.015, 999.9995, 1e15 + 0.5 };
    static const double sus[] = { 0, 0.001, 0.015, 0.25, 0.95, 9.5, 19.5, 0.1, 1.0, 0.0996, 0.00104, 1.04, 10.0, 0.5, 0.05 };
    static const int lzs[] = { 0, 1, 5 };
    static const unsigned rules[] = { 2, 3, 9, 10, 11, 19, 27, 28, 29, 99, 100, 101, 999, 1000, 12345, 100000 };
    long evals = 0, nontriv = 0, idx = 0; size_t i, j, k; int scale, sgn, e;
    for (i = 0; i < sizeof classics / sizeof classics[0]; i++) for (sgn = 0; sgn < 2; sgn++) for (scale = -5; scale <= 20; scale++)
        for (j = 0; j < sizeof sus / sizeof sus[0]; j++) for (k = 0; k < 3; k++, idx++) {
            double val = sgn ? -classics[i] : classics[i];
            if (idx % NW != WK) continue;
            if (fabs(val) * pow(10.0, scale) > 1e17) continue;       /* scale beyond the precision of a double: undefined */
            if (fabs(val) * pow(10.0, scale) < 0.6 && sus[j] * pow(10.0, scale) < 0.6) continue;   /* everything rounds away */
            evals++; check_init("init_numb", val, sus[j], scale, lzs[k], &nontriv);
        }
    /* structured doubles: binade boundaries and decimal ties */
    for (e = -60; e <= 60; e++) for (i = 0; i < 4; i++, idx++) {
        static const uint64_t mant[] = { 0, 1, 0xFFFFFFFFFFFFFull, 0x8000000000000ull };
        uint64_t bits = ((uint64_t) (e + 1023) << 52) | mant[i]; double x;
        if (idx % NW != WK) continue;
        memcpy(&x, &bits, sizeof x);
        for (scale = -3; scale <= 12; scale++) {
            if (fabs(x) * pow(10.0, scale) > 1e17 || fabs(x) * pow(10.0, scale) < 0.6) continue;
            evals++; check_init("init_numb-binade", x, 0.0, scale, 5, &nontriv);
            evals++; check_init("init_numb-binade", -x, ldexp(x, -10), scale, 5, &nontriv);
        }
    }
    /* exact decimal ties k + 0.5 at scale 0, k.5 x 10^-s */
    for (i = 0; i < 2000; i++, idx++) {
        double x = (double) i + 0.5;
        if (idx % NW != WK) continue;
        evals++; check_init("init_numb-tie", x, 0.0, 0, 5, &nontriv);
        evals++; check_init("init_numb-tie", x / 4.0, 0.0, 2, 5, &nontriv);     /* (i+0.5)/4 = k.125, k.375 ...: ties at scale 2 */
        evals++; check_init("init_numb-tie", -x, x / 8.0, 0, 5, &nontriv);
        evals++; check_init("init_numb-tie", x * 10.0, 0.0, -1, 5, &nontriv);
    }
    /* large integers around exact decimal ties: (10 d + 5) x 10^m and its two neighbouring doubles, rounded at scale -(m+1) */
    { int m, d; for (m = 1; m <= 24; m++) for (d = 0; d <= 19; d++, idx++) {
        double base = (10.0 * d + 5.0) * pow(10.0, m), up, dn; char chk[64];
        if (idx % NW != WK) continue;
        snprintf(chk, sizeof chk, "%.0f", base);
        up = nextafter(base, INFINITY); dn = nextafter(base, 0.0);
        evals++; check_init("init_numb-bigtie", base, 0.0, -(m + 1), 5, &nontriv);
        evals++; check_init("init_numb-bigtie", up, 0.0, -(m + 1), 5, &nontriv);
        evals++; check_init("init_numb-bigtie", dn, 0.0, -(m + 1), 5, &nontriv);
        evals++; check_init("init_numb-bigtie", -up, up, -(m + 1), 5, &nontriv);
        evals++; check_init("init_numb-bigtie", 3.0 * pow(10.0, m + 2), dn, -(m + 1), 5, &nontriv);
    } }
    /* every decimal exponent: two significant digits of 1.5, 9.96 (carry into the next power) and 1.0 x 10^e, exact and with su */
    for (e = -300; e <= 300; e++, idx++) {
        static const double lead[] = { 1.5, 9.96, 1.0, 9.949999 };
        if (idx % NW != WK) continue;
        for (i = 0; i < 4; i++) {
            double x = lead[i] * pow(10.0, e);
            evals++; check_init("init_numb-exponent", x, 0.0, 1 - e, 5, &nontriv);
            evals++; check_init("init_numb-exponent", -x, x / 7.0, 1 - e, 0, &nontriv);
            evals++; check_auto("autoinit_numb-exponent", x, x / 300.0, 19, &nontriv);
        }
    }
    for (i = 0; i < sizeof classics / sizeof classics[0]; i++) for (j = 1; j < sizeof sus / sizeof sus[0]; j++) for (k = 0; k < sizeof rules / sizeof rules[0]; k++, idx++) {
        if (idx % NW != WK) continue;
        evals++; check_auto("autoinit_numb", classics[i], sus[j], rules[k], &nontriv);
        evals++; check_auto("autoinit_numb", -classics[i], sus[j] * 37.0, rules[k], &nontriv);
        evals++; check_auto("autoinit_numb", classics[i] * 1000.0, sus[j] / 1024.0, rules[k], &nontriv);
    }
    printf("S format %ld %ld\n", evals, nontriv);
}

int main(int argc, char **argv) {
    const char *tier = argc > 1 ? argv[1] : "quick";
    const char *only = argc > 4 ? argv[4] : "";
    NW = argc > 2 ? atoi(argv[2]) : 1; WK = argc > 3 ? atoi(argv[3]) : 0;
    THOROUGH = strcmp(tier, "thorough") == 0;
    /* the very first conversions of the process are made under another rounding mode (the library is documented to honour the
     * mode in effect): nothing of that may linger once the default mode is back */
    { cif_value_tp *v = NULL; double d = 0; static const UChar t[] = { '0', '.', '3', '(', '1', ')', 0 };
      fesetround(FE_UPWARD);
      if (cif_value_create(CIF_UNK_KIND, &v) == CIF_OK) {
          UChar *u = (UChar *) malloc(sizeof t); memcpy(u, t, sizeof t);
          if (cif_value_parse_numb(v, u) != CIF_OK) free(u);
          (void) cif_value_get_number(v, &d); (void) cif_value_get_su(v, &d);
          (void) cif_value_init_numb(v, 0.125, 0.0, 2, 5); (void) cif_value_autoinit_numb(v, 12.3412, 0.0121, 19);
          cif_value_free(v);
      }
      fesetround(FE_DOWNWARD);
      if (cif_value_create(CIF_UNK_KIND, &v) == CIF_OK) { (void) cif_value_init_numb(v, 0.375, 0.0, 2, 5); (void) cif_value_get_number(v, &d); cif_value_free(v); }
    }
    fesetround(FE_TONEAREST);
    if (!*only || strstr(only, "accept")) family_accept(getenv("NUM_ACCEPT_LEN") ? atoi(getenv("NUM_ACCEPT_LEN")) : (THOROUGH ? 8 : 6));
    if (!*only || strstr(only, "grid")) family_grid(getenv("NUM_GRID_DIGITS") ? atoi(getenv("NUM_GRID_DIGITS")) : (THOROUGH ? 5 : 3));
    if (!*only || strstr(only, "expspell")) family_expspell();
    if (!*only || strstr(only, "ties")) family_ties();
    if (!*only || strstr(only, "format")) family_format();
    printf("D %ld\n", nviol);
    return 0;
}
