/* allocation accounting and single-fault injection shared by all harness programs */
#ifndef VERIF_WRAP_H
#define VERIF_WRAP_H
#include <stddef.h>

/* number of live allocations made through the wrapped libc entry points (library + uthash + harness code that
 * does not use the h_* functions); always 0 in builds without wrappers */
long wrap_live(void);
/* number of allocation requests seen since wrap_count_reset() */
long wrap_count(void);
void wrap_count_reset(void);
/* arm: the k-th (1-based) allocation request from now on fails (returns NULL); 0 disarms. */
void wrap_arm(long k);
/* 1 if the armed fault has fired since it was armed */
int wrap_fired(void);
int wrap_available(void);
/* select the allocator domain that is counted / failed: 0 library (libc wrappers), 1 SQLite, 2 ICU */
void wrap_domain(int d);
/* requests are counted / failed only while the gate is open (the executor opens it around the API call under test) */
void wrap_gate(int on);
int wrap_should_fail(int dom);

/* harness-private allocation that is never counted or failed */
void *h_malloc(size_t n);
void *h_realloc(void *p, size_t n);
void h_free(void *p);
char *h_strdup(const char *s);
#endif
