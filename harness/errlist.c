/* prints cif_nerr and every cif_errlist entry as JSON (C20) */
#include <stdio.h>
#include <string.h>
#include "cif.h"
#include "cif_error.h"
int main(void) {
    int i; const char *p;
    printf("{\"nerr\":%d,\"list\":[", cif_nerr);
    for (i = 0; i < cif_nerr; i++) {
        printf("%s\"", i ? "," : "");
        for (p = cif_errlist[i]; *p && p < cif_errlist[i] + 80; p++) {
            if (*p == '"' || *p == '\\') putchar('\\');
            if ((unsigned char) *p >= 0x20 && (unsigned char) *p < 0x7f) putchar(*p); else printf("\\u%04x", (unsigned char) *p);
        }
        printf("\"");
    }
    printf("]}\n");
    return 0;
}
