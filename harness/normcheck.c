/*
 * normcheck - C09: names, codes and keys are matched by normalised equivalence; validity rules.
 * Exhaustive over all Unicode scalar values (single code points in three contexts) and over all ordered pairs / triples
 * of an "interesting" set computed from ICU's own data.  ICU (unorm2, u_strFoldCase) is the trusted oracle.
 * usage: normcheck <tier> <nworkers> <worker>
 */
#include <stdio.h>
#include <stdlib.h>
#include <string.h>
#include <stdarg.h>
#include <unicode/ustring.h>
#include <unicode/unorm2.h>
#include <unicode/uchar.h>
#include "cif.h"

static int NW = 1, WK = 0, THOROUGH = 0, LIGHT = 0;
static long nviol = 0;
#define MAXV 60
static const UNormalizer2 *NFC, *NFD;

static void viol(const char *fam, const char *fmt, ...) {
    va_list ap;
    nviol++;
    if (nviol > MAXV) return;
    printf("V %s ", fam);
    va_start(ap, fmt); vprintf(fmt, ap); va_end(ap);
    printf("\n");
}
static const char *hex(const UChar *s) {
    static char buf[8][1024]; static int k = 0; char *b = buf[k = (k + 1) % 8]; int n = 0, i;
    for (i = 0; s[i] && n < 1000; i++) n += sprintf(b + n, "%s%04X", i ? " " : "", s[i]);
    if (!s[0]) strcpy(b, "(empty)");
    return b;
}
static int put_cp(UChar *d, UChar32 c) {
    if (c < 0x10000) { d[0] = (UChar) c; return 1; }
    d[0] = U16_LEAD(c); d[1] = U16_TRAIL(c); return 2;
}

/* independent validity predicate from the CIF 2.0 character set */
static int cp_allowed_in_name(UChar32 c) {
    if (c <= 0x20) return 0;                       /* controls and blank */
    if (c >= 0x7f && c <= 0x9f) return 0;          /* DEL and C1 controls */
    if (c >= 0xd800 && c <= 0xdfff) return 0;
    if (c >= 0xfdd0 && c <= 0xfdef) return 0;      /* non-characters */
    if ((c & 0xfffe) == 0xfffe) return 0;          /* U+xxFFFE, U+xxFFFF */
    return c <= 0x10ffff;
}
static int cp_allowed_in_key(UChar32 c) {
    if (c == 0x9 || c == 0xa || c == 0xd || c == 0x20) return 1;   /* keys may contain whitespace */
    return cp_allowed_in_name(c);
}

static int norm_with(const UNormalizer2 *n, const UChar *s, UChar *out, int cap) {
    UErrorCode e = U_ZERO_ERROR; int32_t l = unorm2_normalize(n, s, -1, out, cap - 1, &e);
    if (U_FAILURE(e)) return -1;
    out[l] = 0; return l;
}
static int fold(const UChar *s, UChar *out, int cap) {
    UErrorCode e = U_ZERO_ERROR; int32_t l = u_strFoldCase(out, cap - 1, s, -1, U_FOLD_CASE_DEFAULT, &e);
    if (U_FAILURE(e)) return -1;
    out[l] = 0; return l;
}

/* cif_normalize wrapper: result copied into out; returns rc */
static int N(const UChar *s, UChar *out, int cap) {
    UChar *r = NULL; int rc = cif_normalize(s, -1, &r);
    if (rc == CIF_OK) { if (u_strlen(r) >= cap) { free(r); return -99; } u_strcpy(out, r); free(r); }
    return rc;
}

static long evals = 0, nontriv = 0;

/* the normaliser's algebraic properties on one string */
static void check_normalize(const char *fam, const UChar *s) {
    UChar n1[600], n2[600], t[600], n3[600];
    evals++;
    if (N(s, n1, 600) != CIF_OK) { viol(fam, "cif_normalize failed on %s", hex(s)); return; }
    if (N(n1, n2, 600) != CIF_OK || u_strcmp(n1, n2) != 0) viol(fam, "cif_normalize is not idempotent on %s: %s then %s", hex(s), hex(n1), hex(n2));
    if (norm_with(NFD, s, t, 600) >= 0) { if (N(t, n3, 600) != CIF_OK || u_strcmp(n1, n3) != 0) viol(fam, "cif_normalize differs for canonically equivalent inputs %s -> %s and (NFD) %s -> %s", hex(s), hex(n1), hex(t), hex(n3)); }
    if (norm_with(NFC, s, t, 600) >= 0) { if (N(t, n3, 600) != CIF_OK || u_strcmp(n1, n3) != 0) viol(fam, "cif_normalize differs for canonically equivalent inputs %s -> %s and (NFC) %s -> %s", hex(s), hex(n1), hex(t), hex(n3)); }
    /* N(fold(s)) == N(s) is NOT required by the property (it fails for U+0345-type characters, whose folding changes
       combining order); matching is defined through equality of cif_normalize results only */
    if (u_strcmp(n1, s) != 0) nontriv++;
}

/* Independent statement of "without regard to letter case and canonical equivalence": Unicode canonical caseless matching
 * (D145), NFD(toCasefold(NFD(X))) == NFD(toCasefold(NFD(Y))), computed with ICU and without cif_normalize.  For a spelling
 * and its upper- / lower-cased NFD form, cif_normalize must agree with it on whether the two match. */
static int ref_form(const UChar *x, UChar *out, int cap) {
    UChar d[700], f[700];
    if (norm_with(NFD, x, d, 700) < 0 || fold(d, f, 700) < 0 || norm_with(NFD, f, out, cap) < 0) return -1;
    return 0;
}
static void check_casematch(const char *fam, const UChar *a) {
    UChar d[700], b[700], ra[700], rb[700], na[700], nb[700]; UErrorCode e; int which, want, got;
    if (norm_with(NFD, a, d, 700) < 0) return;
    for (which = 0; which < 2; which++) {
        e = U_ZERO_ERROR;
        if (which == 0) u_strToUpper(b, 700, d, -1, "", &e); else u_strToLower(b, 700, d, -1, "", &e);
        if (U_FAILURE(e) || e == U_STRING_NOT_TERMINATED_WARNING) continue;
        if (ref_form(a, ra, 700) < 0 || ref_form(b, rb, 700) < 0) continue;
        if (N(a, na, 700) != CIF_OK || N(b, nb, 700) != CIF_OK) continue;     /* a disallowed character: judged elsewhere */
        evals++;
        want = (u_strcmp(ra, rb) == 0); got = (u_strcmp(na, nb) == 0);
        if (want) nontriv++;
        if (want != got) viol(fam, "%s and its %s-cased decomposed form %s are %s under canonical caseless matching, but cif_normalize gives %s and %s", hex(a), which ? "lower" : "upper", hex(b), want ? "the same name" : "different names", hex(na), hex(nb));
    }
}

/* packet-name matching: created under a, looked up under b: found iff normalised forms are equal */
static void check_packet_match(const char *fam, const UChar *a, const UChar *b) {
    UChar na[700], nb[700]; UChar *names[2]; cif_packet_tp *p = NULL; int rc, want;
    evals++;
    names[0] = (UChar *) a; names[1] = NULL;
    rc = cif_packet_create(&p, names);
    if (rc != CIF_OK) { viol(fam, "cif_packet_create refused the valid name %s (rc %d)", hex(a), rc); return; }
    if (N(a, na, 700) != CIF_OK || N(b, nb, 700) != CIF_OK) { cif_packet_free(p); return; }
    want = (u_strcmp(na, nb) == 0);
    rc = cif_packet_get_item(p, b, NULL);
    if (want ? (rc != CIF_OK) : (rc != CIF_NOSUCH_ITEM && rc != CIF_INVALID_ITEMNAME))
        viol(fam, "packet item created as %s looked up as %s: rc %d, normalised forms %s", hex(a), hex(b), rc, want ? "equal" : "differ");
    if (want) nontriv++;
    cif_packet_free(p);
}

/* table keys: matched by canonical equivalence only; most recent spelling enumerated */
static void check_key_match(const char *fam, const UChar *a, const UChar *b) {
    UChar ca[700], cb[700]; cif_value_tp *t = NULL, *v = NULL; int rc, want; const UChar **keys = NULL;
    evals++;
    if (cif_value_create(CIF_TABLE_KIND, &t) != CIF_OK) return;
    rc = cif_value_set_item_by_key(t, a, NULL);
    if (rc != CIF_OK) { viol(fam, "table refused the valid key %s (rc %d)", hex(a), rc); cif_value_free(t); return; }
    norm_with(NFC, a, ca, 700); norm_with(NFC, b, cb, 700);
    want = (u_strcmp(ca, cb) == 0);
    rc = cif_value_get_item_by_key(t, b, &v);
    if (want ? (rc != CIF_OK) : (rc != CIF_NOSUCH_ITEM))
        viol(fam, "table key entered as %s looked up as %s: rc %d, NFC forms %s", hex(a), hex(b), rc, want ? "equal" : "differ");
    rc = cif_value_set_item_by_key(t, b, NULL);
    if (rc == CIF_OK && cif_value_get_keys(t, &keys) == CIF_OK) {
        int n = 0; while (keys[n]) n++;
        if (want) {
            nontriv++;
            if (n != 1 || u_strcmp(keys[0], b) != 0) viol(fam, "table keys after entering %s then the equivalent %s: %d key(s), first %s (expected the most recent spelling only)", hex(a), hex(b), n, n ? hex(keys[0]) : "-");
        } else if (n != 2) viol(fam, "table keys after entering the distinct keys %s and %s: %d key(s)", hex(a), hex(b), n);
        free(keys); keys = NULL;
    }
    /* the entry's own value object stored back under the first spelling (documented as allowed: "no change" to the value): the key
       is used once more, so it is that spelling which enumerates */
    if (want && rc == CIF_OK && cif_value_get_item_by_key(t, b, &v) == CIF_OK && v != NULL) {
        rc = cif_value_set_item_by_key(t, a, v);
        if (rc != CIF_OK) viol(fam, "storing the entry's own value back under the equivalent key %s: rc %d", hex(a), rc);
        else if (cif_value_get_keys(t, &keys) == CIF_OK) {
            int n = 0; while (keys[n]) n++;
            if (n != 1 || u_strcmp(keys[0], a) != 0) viol(fam, "table keys after %s, %s and the entry's own value stored back under %s: %d key(s), first %s (expected the most recent spelling)", hex(a), hex(b), hex(a), n, n ? hex(keys[0]) : "-");
            free(keys);
        }
    }
    cif_value_free(t);
}

/* blocks and frames: created under a; get / duplicate-create / under b */
static void check_container_match(cif_tp *cif, const UChar *a, const UChar *b) {
    UChar na[700], nb[700]; cif_block_tp *blk = NULL, *g = NULL; cif_frame_tp *f = NULL, *g2 = NULL; int rc, want;
    evals++;
    if (N(a, na, 700) != CIF_OK || N(b, nb, 700) != CIF_OK) return;
    want = (u_strcmp(na, nb) == 0);
    rc = cif_create_block(cif, a, &blk);
    if (rc != CIF_OK) { viol("container", "cif_create_block refused the valid code %s (rc %d)", hex(a), rc); return; }
    rc = cif_get_block(cif, b, &g);
    if (want ? rc != CIF_OK : rc != CIF_NOSUCH_BLOCK) viol("container", "block created as %s, cif_get_block(%s) = %d, normalised forms %s", hex(a), hex(b), rc, want ? "equal" : "differ");
    if (rc == CIF_OK) {
        UChar *code = NULL;
        if (cif_container_get_code(g, &code) == CIF_OK) { if (u_strcmp(code, a) != 0) viol("container", "block created as %s reports code %s", hex(a), hex(code)); free(code); }
        cif_container_free(g);
    }
    rc = cif_create_block(cif, b, NULL);
    if (want ? rc != CIF_DUP_BLOCKCODE : rc != CIF_OK) viol("container", "block created as %s, then cif_create_block(%s) = %d, normalised forms %s", hex(a), hex(b), rc, want ? "equal" : "differ");
    if (rc == CIF_OK) { cif_block_tp *x = NULL; if (cif_get_block(cif, b, &x) == CIF_OK) (void) cif_container_destroy(x); }
    rc = cif_container_create_frame(blk, a, &f);
    if (rc != CIF_OK) viol("container", "cif_container_create_frame refused the valid code %s (rc %d)", hex(a), rc);
    else {
        rc = cif_container_get_frame(blk, b, &g2);
        if (want ? rc != CIF_OK : rc != CIF_NOSUCH_FRAME) viol("container", "frame created as %s, get_frame(%s) = %d, normalised forms %s", hex(a), hex(b), rc, want ? "equal" : "differ");
        if (rc == CIF_OK) cif_container_free(g2);
        rc = cif_container_create_frame(blk, b, NULL);
        if (want ? rc != CIF_DUP_FRAMECODE : rc != CIF_OK) viol("container", "frame created as %s, then create_frame(%s) = %d, normalised forms %s", hex(a), hex(b), rc, want ? "equal" : "differ");
        cif_container_free(f);
    }
    /* items in the block */
    { UChar ia[710], ib[710]; cif_loop_tp *l = NULL;
      ia[0] = '_'; u_strcpy(ia + 1, a); ib[0] = '_'; u_strcpy(ib + 1, b);
      rc = cif_container_set_value(blk, ia, NULL);
      if (rc != CIF_OK) viol("container", "set_value refused the valid name %s (rc %d)", hex(ia), rc);
      else {
          rc = cif_container_get_item_loop(blk, ib, &l);
          if (want ? rc != CIF_OK : rc != CIF_NOSUCH_ITEM) viol("container", "item created as %s, get_item_loop(%s) = %d, normalised forms %s", hex(ia), hex(ib), rc, want ? "equal" : "differ");
          if (rc == CIF_OK) {
              UChar **names = NULL; if (cif_loop_get_names(l, &names) == CIF_OK) { if (!names[0] || u_strcmp(names[0], ia) != 0) viol("container", "item created as %s reports name %s", hex(ia), names[0] ? hex(names[0]) : "-"); { int i; for (i = 0; names[i]; i++) free(names[i]); } free(names); }
              cif_loop_free(l);
          }
          /* a table stored in the CIF and read back still matches its keys by canonical equivalence (and by nothing else) */
          { cif_value_tp *tv = NULL, *back = NULL, *e = NULL; UChar ka[700], kb[700]; int wk; const UChar **keys = NULL;
            norm_with(NFC, a, ka, 700); norm_with(NFC, b, kb, 700); wk = (u_strcmp(ka, kb) == 0);
            if (cif_value_create(CIF_TABLE_KIND, &tv) == CIF_OK && cif_value_set_item_by_key(tv, a, NULL) == CIF_OK
                    && cif_container_set_value(blk, ia, tv) == CIF_OK && cif_container_get_value(blk, ia, &back) == CIF_OK) {
                evals++;
                rc = cif_value_get_item_by_key(back, b, &e);
                if (wk ? rc != CIF_OK : rc != CIF_NOSUCH_ITEM) viol("container", "table key %s stored in a CIF and read back, looked up as %s: rc %d, NFC forms %s", hex(a), hex(b), rc, wk ? "equal" : "differ");
                rc = cif_value_get_item_by_key(back, a, &e);
                if (rc != CIF_OK) viol("container", "table key %s stored in a CIF and read back is not found under its own spelling: rc %d", hex(a), rc);
                if (cif_value_get_keys(back, &keys) == CIF_OK) { if (!keys[0] || keys[1] || u_strcmp(keys[0], a) != 0) viol("container", "table key %s stored in a CIF and read back enumerates as %s", hex(a), keys[0] ? hex(keys[0]) : "-"); free(keys); }
            }
            cif_value_free(tv); cif_value_free(back); }
          rc = cif_container_remove_item(blk, ib);
          if (want ? rc != CIF_OK : rc != CIF_NOSUCH_ITEM) viol("container", "item created as %s, remove_item(%s) = %d, normalised forms %s", hex(ia), hex(ib), rc, want ? "equal" : "differ");
      } }
    if (want) nontriv++;
    (void) cif_container_destroy(blk);
}

/* ---------- part A: every Unicode code point ---------- */
static void all_codepoints(void) {
    UChar32 c; cif_tp *cif = NULL; cif_value_tp *table = NULL;
    if (cif_create(&cif) != CIF_OK || cif_value_create(CIF_TABLE_KIND, &table) != CIF_OK) { viol("setup", "cif_create failed"); return; }
    for (c = 1; c <= 0x10ffff; c++) {
        UChar s[8], name[12], code[12], t[64], f[64]; int l, rc, ok; UChar *names[2]; cif_packet_tp *p = NULL;
        if ((c % NW) != WK) continue;
        ok = cp_allowed_in_name(c);
        if (c >= 0xd800 && c <= 0xdfff) {
            /* a lone surrogate is never acceptable */
            s[0] = (UChar) c; s[1] = 0;
        } else { l = put_cp(s, c); s[l] = 0; }
        name[0] = '_'; name[1] = 'x'; u_strcpy(name + 2, s);
        code[0] = 'x'; u_strcpy(code + 1, s);
        evals += 3;
        names[0] = name; names[1] = NULL;
        rc = cif_packet_create(&p, names);
        if (ok ? rc != CIF_OK : rc != CIF_INVALID_ITEMNAME) viol("validity", "data name _x+U+%04X: cif_packet_create returned %d, the character is %s in names", (unsigned) c, rc, ok ? "allowed" : "not allowed");
        if (rc == CIF_OK) {
            /* found under its case folding and its decomposition, not under the next code point (unless equivalent) */
            cif_packet_free(p);
            if (fold(name, f, 64) >= 0 && cp_allowed_in_name(c)) check_packet_match("match1", name, f);
            if (norm_with(NFD, name, t, 64) >= 0) check_packet_match("match1", name, t);
            if (cp_allowed_in_name(c + 1)) { UChar o[12]; int m; o[0] = '_'; o[1] = 'x'; m = put_cp(o + 2, c + 1); o[2 + m] = 0; check_packet_match("match1", name, o); }
        }
        /* block and frame code x+c through the storage layer (light mode, used under the sanitizers: a subset) */
        if (!LIGHT || c < 0x3100 || (c & 0xffff) < 0x20 || (c & 0xffff) >= 0xfdc0 || (c >= 0xd700 && c < 0xe100)) {
            cif_block_tp *b = NULL;
            rc = cif_create_block(cif, code, &b);
            if (ok ? rc != CIF_OK : rc != CIF_INVALID_BLOCKCODE) viol("validity", "block code x+U+%04X: cif_create_block returned %d, the character is %s", (unsigned) c, rc, ok ? "allowed" : "not allowed");
            if (rc == CIF_OK) {
                cif_frame_tp *fr = NULL; int r2 = cif_container_create_frame(b, code, &fr);
                if (r2 != CIF_OK) viol("validity", "frame code x+U+%04X: create_frame returned %d", (unsigned) c, r2); else cif_container_free(fr);
                (void) cif_container_destroy(b);
            } else if (!ok) {
                /* frames use the same rule with their own code */
                static cif_block_tp *host = NULL; static const UChar hn[] = { 'h', 'o', 's', 't', 0 }; int r2;
                if (!host) (void) cif_create_block(cif, hn, &host);
                if (host) { r2 = cif_container_create_frame(host, code, NULL); if (r2 != CIF_INVALID_FRAMECODE) { viol("validity", "frame code x+U+%04X: create_frame returned %d, expected CIF_INVALID_FRAMECODE", (unsigned) c, r2); } }
            }
            evals += 2;
        }
        /* table key */
        rc = cif_value_set_item_by_key(table, s, NULL);
        if (cp_allowed_in_key(c) ? rc != CIF_OK : rc != CIF_INVALID_INDEX) viol("validity", "table key U+%04X: set_item_by_key returned %d, the character is %s in keys", (unsigned) c, rc, cp_allowed_in_key(c) ? "allowed" : "not allowed");
        if (rc == CIF_OK) (void) cif_value_remove_item_by_key(table, s, NULL);
        /* normaliser */
        if (c < 0xd800 || c > 0xdfff) {
            UChar w[16]; int k;
            check_normalize("normalize1", s);
            if (ok) { UChar m[8]; int q = put_cp(m, c); check_casematch("casematch1", s); m[q] = 0x0323; m[q + 1] = 0; check_casematch("casematch1", m); m[q] = 0x0301; check_casematch("casematch1", m);
                      m[q] = 0x0345; m[q + 1] = 0x0323; m[q + 2] = 0; check_casematch("casematch1", m); }
            w[0] = 'a'; k = 1 + put_cp(w + 1, c); w[k++] = 'b'; w[k] = 0; check_normalize("normalize1", w);
            k = put_cp(w, c); w[k++] = 0x0301; w[k++] = 0x0323; w[k] = 0; check_normalize("normalize-marks", w);
            { UChar w2[16], n1[64], n2[64]; int k2 = put_cp(w2, c); w2[k2++] = 0x0323; w2[k2++] = 0x0301; w2[k2] = 0;
              if (N(w, n1, 64) == CIF_OK && N(w2, n2, 64) == CIF_OK && u_strcmp(n1, n2) != 0) viol("normalize-marks", "reordered marks give different results: %s -> %s, %s -> %s", hex(w), hex(n1), hex(w2), hex(n2)); evals++; }
        }
    }
    /* structural validity rules */
    if (WK == 0) {
        static const UChar e[] = { 0 }, us[] = { '_', 0 }, noscore[] = { 'a', 0 }, ok1[] = { '_', 'a', 0 };
        UChar *names[2]; cif_packet_tp *p = NULL; int rc; cif_block_tp *b = NULL;
        names[1] = NULL;
        names[0] = (UChar *) e; rc = cif_packet_create(&p, names); if (rc != CIF_INVALID_ITEMNAME) viol("validity", "empty data name: %d", rc); if (rc == CIF_OK) cif_packet_free(p);
        names[0] = (UChar *) us; rc = cif_packet_create(&p, names); if (rc != CIF_INVALID_ITEMNAME) viol("validity", "data name \"_\": %d", rc); if (rc == CIF_OK) cif_packet_free(p);
        names[0] = (UChar *) noscore; rc = cif_packet_create(&p, names); if (rc != CIF_INVALID_ITEMNAME) viol("validity", "data name without underscore: %d", rc); if (rc == CIF_OK) cif_packet_free(p);
        names[0] = (UChar *) ok1; rc = cif_packet_create(&p, names); if (rc != CIF_OK) viol("validity", "data name _a: %d", rc); else cif_packet_free(p);
        rc = cif_create_block(cif, e, &b); if (rc != CIF_INVALID_BLOCKCODE) viol("validity", "empty block code: %d", rc);
        evals += 5;
        /* length limits, counted in code points: names <= 2048, codes <= 2048 - 5 */
        { int n, supp; for (supp = 0; supp < 2; supp++) for (n = 2040; n <= 2050; n++) {
            static UChar buf[4200]; int k = 0, i; cif_block_tp *bb = NULL;
            buf[k++] = '_';
            for (i = 1; i < n; i++) { if (supp && (i % 2)) { k += put_cp(buf + k, 0x10400); } else buf[k++] = 'a'; }
            buf[k] = 0;
            names[0] = buf; rc = cif_packet_create(&p, names);
            if ((n <= 2048) ? rc != CIF_OK : rc != CIF_INVALID_ITEMNAME) viol("length", "data name of %d code points (%s supplementary characters): %d", n, supp ? "with" : "without", rc);
            if (rc == CIF_OK) cif_packet_free(p);
            rc = cif_create_block(cif, buf + 1, &bb);
            if ((n - 1 <= 2043) ? rc != CIF_OK : rc != CIF_INVALID_BLOCKCODE) viol("length", "block code of %d code points (%s supplementary characters): %d", n - 1, supp ? "with" : "without", rc);
            if (rc == CIF_OK) (void) cif_container_destroy(bb);
            evals += 2;
        } }
    }
    cif_value_free(table);
    cif_destroy(cif);
}

/* ---------- part B: pairs and triples over the interesting set ---------- */
static UChar32 I[2000]; static int nI = 0;
static void build_interesting(void) {
    UChar32 c; int seen_ccc[256]; memset(seen_ccc, 0, sizeof seen_ccc);
    for (c = 0x21; c <= 0x10ffff && nI < 1900; c++) {
        UChar s[4], d[64], f[64], fd[64]; int l, take = 0, ccc;
        if (!cp_allowed_in_name(c)) continue;
        if (u_charType(c) == U_UNASSIGNED || u_charType(c) == U_PRIVATE_USE_CHAR) continue;
        l = put_cp(s, c); s[l] = 0;
        ccc = u_getCombiningClass(c);
        if (ccc != 0 && !seen_ccc[ccc]) { seen_ccc[ccc] = 1; take = 1; }
        if (norm_with(NFD, s, d, 64) >= 0 && fold(d, f, 64) >= 0 && norm_with(NFD, f, fd, 64) >= 0) {
            if (u_strcmp(f, fd) != 0) take = 1;                       /* folding de-normalises */
            if (u_strlen(f) > u_strlen(d)) take = 1;                  /* folding expands */
            { int i; for (i = 0; f[i]; i++) if (u_getCombiningClass(f[i]) != 0 && u_getCombiningClass(d[i < u_strlen(d) ? i : 0]) == 0) take = 1; }
        }
        if (c == 0x345 || c == 0x1e9e || c == 0xdf || c == 0x130 || c == 0x131 || c == 0x212a || c == 0x212b || c == 0x2126 || c == 0x3c3 || c == 0x3c2 || c == 0x3a3
            || c == 0x1100 || c == 0x1161 || c == 0x11a8 || c == 0xac00 || c == 0xac01 || c == 'a' || c == 'A' || c == 0xe9 || c == 0xc9 || c == 0x1c4 || c == 0x1c5 || c == 0x1c6
            || c == 0x301 || c == 0x323 || c == 0x308 || c == 0x327 || c == 0x1f88 || c == 0x390 || c == 0x3b0 || c == 0xfb00 || c == 0x10400 || c == 0x10428 || c == 0x1d160) take = 1;
        if (take) I[nI++] = c;
    }
}

static void tuples(void) {
    int i, j, k, core = nI < 60 ? nI : 60; long idx = 0; cif_tp *cif = NULL;
    cif_create(&cif);
    for (i = 0; i < nI; i++) for (j = 0; j < nI; j++, idx++) {
        UChar s[16], name[20], v[64], vn[72]; int l;
        if (idx % NW != WK) continue;
        l = put_cp(s, I[i]); l += put_cp(s + l, I[j]); s[l] = 0;
        check_normalize("normalize2", s);
        check_casematch("casematch2", s);
        name[0] = '_'; u_strcpy(name + 1, s);
        /* matching: created under s, looked up under NFD / NFC / fold and under the pair with swapped members */
        vn[0] = '_';
        if (norm_with(NFD, s, v, 64) >= 0) { u_strcpy(vn + 1, v); check_packet_match("match2", name, vn); check_key_match("key2", s, v); }
        if (norm_with(NFC, s, v, 64) >= 0) { u_strcpy(vn + 1, v); check_packet_match("match2", name, vn); check_key_match("key2", s, v); }
        if (fold(s, v, 64) >= 0) { u_strcpy(vn + 1, v); check_packet_match("match2", name, vn); check_key_match("key2", s, v); }
        { UChar sw[16]; int m = put_cp(sw, I[j]); m += put_cp(sw + m, I[i]); sw[m] = 0; u_strcpy(vn + 1, sw); check_packet_match("match2", name, vn); check_key_match("key2", s, sw); }
        if (cif && i < core && j < core) {
            if (norm_with(NFD, s, v, 64) >= 0) check_container_match(cif, s, v);
            if (fold(s, v, 64) >= 0) check_container_match(cif, s, v);
            { UChar sw[16]; int m = put_cp(sw, I[j]); m += put_cp(sw + m, I[i]); sw[m] = 0; check_container_match(cif, s, sw); }
        }
    }
    if (THOROUGH) {
        core = nI;      /* triples over the whole interesting set */
        for (i = 0; i < core; i++) for (j = 0; j < core; j++) for (k = 0; k < core; k++, idx++) {
            UChar s[24]; int l;
            if (idx % NW != WK) continue;
            l = put_cp(s, I[i]); l += put_cp(s + l, I[j]); l += put_cp(s + l, I[k]); s[l] = 0;
            check_normalize("normalize3", s);
            check_casematch("casematch3", s);
        }
    }
    if (cif) cif_destroy(cif);
}

/* ---------- part C: ASCII codes that a storage layer might take for numbers, NULLs, booleans or patterns ---------- */
static void ascii_codes(void) {
    static const char *codes[] = { "10", "010", "10.0", "1e1", "1E1", "+10", "1E+1", "1e01", "0x10", "0X10", "16", "-0", "0", "0.0", "00", "+0", "1.", ".5", "0.5", "5e-1",
        "inf", "Inf", "nan", "null", "NULL", "true", "TRUE", "1", "01", "1.0", "%", "_", "a%", "a_", "ab", "a*", "a?", "''", "\"\"", "x'y", "x\"y", "x''y", "9223372036854775807",
        "9223372036854775808", "9.223372036854775807e18", "1e400", "1e-400", "0.1", "0.10", ".1", "1-1", "1/2", "--1", "1;", ";1", "#1", "$1", "[1]", "{1}", "a.b", "a..b" };
    int n = (int) (sizeof codes / sizeof codes[0]), i, j; long idx = 0; cif_tp *cif = NULL;
    cif_create(&cif);
    if (!cif) { viol("ascii", "cif_create failed"); return; }
    for (i = 0; i < n; i++) for (j = 0; j < n; j++, idx++) {
        UChar a[64], b[64];
        if (idx % NW != WK) continue;
        u_uastrcpy(a, codes[i]); u_uastrcpy(b, codes[j]);
        check_container_match(cif, a, b);
        check_key_match("ascii-key", a, b);
    }
    cif_destroy(cif);
}

int main(int argc, char **argv) {
    UErrorCode e = U_ZERO_ERROR;
    const char *tier = argc > 1 ? argv[1] : "quick";
    NW = argc > 2 ? atoi(argv[2]) : 1; WK = argc > 3 ? atoi(argv[3]) : 0;
    THOROUGH = strcmp(tier, "thorough") == 0;
    LIGHT = strcmp(tier, "light") == 0;
    NFC = unorm2_getNFCInstance(&e); NFD = unorm2_getNFDInstance(&e);
    if (U_FAILURE(e)) { printf("V setup no normalizer\n"); return 1; }
    all_codepoints();
    printf("S codepoints %ld %ld\n", evals, nontriv);
    evals = nontriv = 0;
    build_interesting();
    tuples();
    printf("S tuples %ld %ld\n", evals, nontriv);
    evals = nontriv = 0;
    ascii_codes();
    printf("S ascii-codes %ld %ld\n", evals, nontriv);
    printf("I %d\n", nI);
    printf("D %ld\n", nviol);
    return 0;
}
