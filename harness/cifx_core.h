/* cifx_core.h - shared helpers of the executor: output buffer, tokens, strings, value literals, canonical dumps */
#ifndef CIFX_CORE_H
#define CIFX_CORE_H
#include <stdio.h>
#include <stdlib.h>
#include <string.h>
#include <stdarg.h>
#include <unicode/ustring.h>
#include "cif.h"
#include "internal/ciftypes.h"
#include "wrap.h"

/* ---------- growing output buffer (harness-private memory) ---------- */
typedef struct { char *s; size_t n, cap; } obuf;
static obuf OUT = {0, 0, 0};

static void ob_reserve(obuf *b, size_t extra) {
    if (b->n + extra + 1 > b->cap) {
        size_t nc = b->cap ? b->cap * 2 : 4096;
        while (nc < b->n + extra + 1) nc *= 2;
        b->s = (char *) h_realloc(b->s, nc);
        b->cap = nc;
    }
}
static void ob_putc(obuf *b, char c) { ob_reserve(b, 1); b->s[b->n++] = c; b->s[b->n] = 0; }
static void ob_puts(obuf *b, const char *s) { size_t l = strlen(s); ob_reserve(b, l); memcpy(b->s + b->n, s, l); b->n += l; b->s[b->n] = 0; }
static void ob_printf(obuf *b, const char *fmt, ...) {
    char tmp[512]; va_list ap; int l;
    va_start(ap, fmt); l = vsnprintf(tmp, sizeof tmp, fmt, ap); va_end(ap);
    if (l >= (int) sizeof tmp) {
        char *big = (char *) h_malloc(l + 1);
        va_start(ap, fmt); vsnprintf(big, l + 1, fmt, ap); va_end(ap);
        ob_puts(b, big); h_free(big);
    } else ob_puts(b, tmp);
}
/* JSON string from UTF-16 units (lone surrogates are passed through as \uXXXX escapes) */
static void ob_jstr_n(obuf *b, const UChar *u, long n) {
    long i;
    if (!u) { ob_puts(b, "null"); return; }
    ob_putc(b, '"');
    for (i = 0; (n < 0) ? (u[i] != 0) : (i < n); i++) {
        UChar c = u[i];
        if (c >= 0x20 && c < 0x7f && c != '"' && c != '\\') ob_putc(b, (char) c);
        else ob_printf(b, "\\u%04x", (unsigned) c);
    }
    ob_putc(b, '"');
}
static void ob_jstr(obuf *b, const UChar *u) { ob_jstr_n(b, u, -1); }
static void ob_jcstr(obuf *b, const char *s) {
    if (!s) { ob_puts(b, "null"); return; }
    ob_putc(b, '"');
    for (; *s; s++) {
        unsigned char c = (unsigned char) *s;
        if (c >= 0x20 && c < 0x7f && c != '"' && c != '\\') ob_putc(b, (char) c);
        else ob_printf(b, "\\u%04x", (unsigned) c);
    }
    ob_putc(b, '"');
}

/* ---------- tokens ---------- */
typedef struct { char **tok; int n, pos; } toks;

static int hexval(int c) {
    if (c >= '0' && c <= '9') return c - '0';
    if (c >= 'a' && c <= 'f') return c - 'a' + 10;
    if (c >= 'A' && c <= 'F') return c - 'A' + 10;
    return -1;
}
/* "u:<hex utf-16 units>" or "-" (NULL) or "a:<ascii>"; result h_malloc'ed, NUL terminated; *isnull set for "-" */
static UChar *tok_ustr(const char *t, int *isnull) {
    UChar *r; size_t i, l;
    if (isnull) *isnull = 0;
    if (!t || strcmp(t, "-") == 0) { if (isnull) *isnull = 1; return NULL; }
    if (t[0] == 'a' && t[1] == ':') {
        l = strlen(t + 2);
        r = (UChar *) h_malloc((l + 1) * sizeof(UChar));
        for (i = 0; i < l; i++) r[i] = (UChar)(unsigned char) t[2 + i];
        r[l] = 0; return r;
    }
    if (t[0] == 'u' && t[1] == ':') t += 2;
    l = strlen(t) / 4;
    r = (UChar *) h_malloc((l + 1) * sizeof(UChar));
    for (i = 0; i < l; i++) {
        r[i] = (UChar)((hexval(t[4*i]) << 12) | (hexval(t[4*i+1]) << 8) | (hexval(t[4*i+2]) << 4) | hexval(t[4*i+3]));
    }
    r[l] = 0;
    return r;
}

/* ---------- value dumps ---------- */
static void dump_value(obuf *b, cif_value_tp *v);

static void dump_value(obuf *b, cif_value_tp *v) {
    cif_kind_tp k;
    if (!v) { ob_puts(b, "null"); return; }
    k = cif_value_kind(v);
    switch (k) {
    case CIF_CHAR_KIND:
    case CIF_NUMB_KIND: {
        UChar *t = NULL; int rc = cif_value_get_text(v, &t);
        ob_printf(b, "{\"k\":\"%s\",\"q\":%d,\"t\":", k == CIF_CHAR_KIND ? "char" : "numb", (int) cif_value_is_quoted(v));
        if (rc != CIF_OK) ob_printf(b, "\"<get_text rc=%d>\"", rc); else ob_jstr(b, t);
        if (t) free(t);
        if (k == CIF_NUMB_KIND) {
            double d = 0, su = 0; int r1 = cif_value_get_number(v, &d), r2 = cif_value_get_su(v, &su);
            ob_printf(b, ",\"num\":\"%d:%.17g\",\"su\":\"%d:%.17g\"", r1, d, r2, su);
            ob_printf(b, ",\"sign\":%d,\"dig\":\"%s\",\"sud\":\"%s\",\"scale\":%d", v->as_numb.sign,
                      v->as_numb.digits ? v->as_numb.digits : "<null>",
                      v->as_numb.su_digits ? v->as_numb.su_digits : "", v->as_numb.scale);
        }
        ob_putc(b, '}');
        break; }
    case CIF_LIST_KIND: {
        size_t n = 0, i; int rc = cif_value_get_element_count(v, &n);
        ob_puts(b, "{\"k\":\"list\",\"e\":[");
        if (rc != CIF_OK) ob_printf(b, "\"<count rc=%d>\"", rc);
        else for (i = 0; i < n; i++) {
            cif_value_tp *e = NULL; int r = cif_value_get_element_at(v, i, &e);
            if (i) ob_putc(b, ',');
            if (r != CIF_OK) ob_printf(b, "\"<get_element rc=%d>\"", r); else dump_value(b, e);
        }
        ob_puts(b, "]}");
        break; }
    case CIF_TABLE_KIND: {
        const UChar **keys = NULL; int rc = cif_value_get_keys(v, &keys), i;
        ob_puts(b, "{\"k\":\"table\",\"i\":[");
        if (rc != CIF_OK) ob_printf(b, "\"<get_keys rc=%d>\"", rc);
        else {
            for (i = 0; keys[i]; i++) {
                cif_value_tp *e = NULL; int r = cif_value_get_item_by_key(v, keys[i], &e);
                if (i) ob_putc(b, ',');
                ob_putc(b, '['); ob_jstr(b, keys[i]); ob_putc(b, ',');
                if (r != CIF_OK) ob_printf(b, "\"<get_item rc=%d>\"", r); else dump_value(b, e);
                ob_putc(b, ']');
            }
            free(keys);
        }
        ob_puts(b, "]}");
        break; }
    case CIF_NA_KIND: ob_puts(b, "{\"k\":\"na\"}"); break;
    case CIF_UNK_KIND: ob_puts(b, "{\"k\":\"unk\"}"); break;
    default: ob_printf(b, "{\"k\":\"bad%d\"}", (int) k); break;
    }
}

static void dump_packet(obuf *b, cif_packet_tp *p) {
    const UChar **names = NULL; int rc, i;
    if (!p) { ob_puts(b, "null"); return; }
    rc = cif_packet_get_names(p, &names);
    ob_putc(b, '[');
    if (rc != CIF_OK) ob_printf(b, "\"<get_names rc=%d>\"", rc);
    else {
        for (i = 0; names[i]; i++) {
            cif_value_tp *e = NULL; int r = cif_packet_get_item(p, names[i], &e);
            if (i) ob_putc(b, ',');
            ob_putc(b, '['); ob_jstr(b, names[i]); ob_putc(b, ',');
            if (r != CIF_OK) ob_printf(b, "\"<get_item rc=%d>\"", r); else dump_value(b, e);
            ob_putc(b, ']');
        }
        free(names);
    }
    ob_putc(b, ']');
}

/* ---------- canonical dump of a managed CIF through the public API ---------- */
static int dump_loop(obuf *b, cif_loop_tp *loop) {
    UChar *cat = NULL; UChar **names = NULL; cif_pktitr_tp *it = NULL; int rc, i, bad = 0;
    ob_puts(b, "{\"cat\":");
    rc = cif_loop_get_category(loop, &cat);
    if (rc != CIF_OK) { ob_printf(b, "\"<rc=%d>\"", rc); bad = 1; } else ob_jstr(b, cat);
    if (cat) free(cat);
    ob_puts(b, ",\"names\":[");
    rc = cif_loop_get_names(loop, &names);
    if (rc != CIF_OK) { ob_printf(b, "\"<rc=%d>\"", rc); bad = 1; }
    else { for (i = 0; names[i]; i++) { if (i) ob_putc(b, ','); ob_jstr(b, names[i]); free(names[i]); } free(names); }
    ob_puts(b, "],\"packets\":[");
    rc = cif_loop_get_packets(loop, &it);
    if (rc == CIF_OK) {
        cif_packet_tp *p = NULL; int first = 1;
        while ((rc = cif_pktitr_next_packet(it, &p)) == CIF_OK) {
            if (!first) ob_putc(b, ','); first = 0;
            dump_packet(b, p);
        }
        if (rc != CIF_FINISHED) { ob_printf(b, "%s\"<next rc=%d>\"", first ? "" : ",", rc); bad = 1; }
        if (p) cif_packet_free(p);
        rc = cif_pktitr_close(it);
        if (rc != CIF_OK) { bad = 1; }
        ob_puts(b, "]");
        if (rc != CIF_OK) ob_printf(b, ",\"close_rc\":%d", rc);
    } else if (rc == CIF_EMPTY_LOOP) {
        ob_puts(b, "]");
    } else { ob_printf(b, "\"<get_packets rc=%d>\"]", rc); bad = 1; }
    ob_putc(b, '}');
    return bad;
}

static int dump_container(obuf *b, cif_container_tp *c) {
    UChar *code = NULL; cif_container_tp **frames = NULL; cif_loop_tp **loops = NULL; int rc, i, bad = 0;
    ob_puts(b, "{\"code\":");
    rc = cif_container_get_code(c, &code);
    if (rc != CIF_OK) { ob_printf(b, "\"<rc=%d>\"", rc); bad = 1; } else ob_jstr(b, code);
    if (code) free(code);
    ob_printf(b, ",\"isblock\":%d", cif_container_assert_block(c));
    ob_puts(b, ",\"frames\":[");
    rc = cif_container_get_all_frames(c, &frames);
    if (rc != CIF_OK) { ob_printf(b, "\"<rc=%d>\"", rc); bad = 1; }
    else {
        for (i = 0; frames[i]; i++) { if (i) ob_putc(b, ','); bad |= dump_container(b, frames[i]); cif_container_free(frames[i]); }
        free(frames);
    }
    ob_puts(b, "],\"loops\":[");
    rc = cif_container_get_all_loops(c, &loops);
    if (rc != CIF_OK) { ob_printf(b, "\"<rc=%d>\"", rc); bad = 1; }
    else {
        for (i = 0; loops[i]; i++) { if (i) ob_putc(b, ','); bad |= dump_loop(b, loops[i]); cif_loop_free(loops[i]); }
        free(loops);
    }
    ob_puts(b, "]}");
    return bad;
}

static int dump_cif(obuf *b, cif_tp *cif) {
    cif_block_tp **blocks = NULL; int rc, i, bad = 0;
    ob_puts(b, "{\"blocks\":[");
    rc = cif_get_all_blocks(cif, &blocks);
    if (rc != CIF_OK) { ob_printf(b, "\"<rc=%d>\"", rc); bad = 1; }
    else {
        for (i = 0; blocks[i]; i++) { if (i) ob_putc(b, ','); bad |= dump_container(b, blocks[i]); cif_container_free(blocks[i]); }
        free(blocks);
    }
    ob_puts(b, "]}");
    return bad;
}

/* ---------- white-box dump of the SQL tables (hidden residue, usable while a transaction is open) ---------- */
static void raw_query(obuf *b, sqlite3 *db, const char *label, const char *sql) {
    sqlite3_stmt *st = NULL; int rc = sqlite3_prepare_v2(db, sql, -1, &st, NULL), first = 1;
    ob_printf(b, "\"%s\":[", label);
    if (rc != SQLITE_OK) { ob_printf(b, "\"<prepare %d>\"", rc); }
    else {
        while ((rc = sqlite3_step(st)) == SQLITE_ROW) {
            int n = sqlite3_column_count(st), i;
            if (!first) ob_putc(b, ','); first = 0;
            ob_putc(b, '[');
            for (i = 0; i < n; i++) {
                if (i) ob_putc(b, ',');
                switch (sqlite3_column_type(st, i)) {
                case SQLITE_NULL: ob_puts(b, "null"); break;
                case SQLITE_INTEGER: ob_printf(b, "%lld", (long long) sqlite3_column_int64(st, i)); break;
                case SQLITE_FLOAT: ob_printf(b, "\"%.17g\"", sqlite3_column_double(st, i)); break;
                case SQLITE_TEXT: {
                    const UChar *t = (const UChar *) sqlite3_column_text16(st, i);
                    int nb = sqlite3_column_bytes16(st, i);
                    ob_jstr_n(b, t, nb / 2); break; }
                default: {
                    const unsigned char *p = (const unsigned char *) sqlite3_column_blob(st, i);
                    int nb = sqlite3_column_bytes(st, i), j;
                    ob_puts(b, "\"x:");
                    for (j = 0; j < nb; j++) ob_printf(b, "%02x", p[j]);
                    ob_putc(b, '"'); break; }
                }
            }
            ob_putc(b, ']');
        }
        if (rc != SQLITE_DONE) ob_printf(b, "%s\"<step %d>\"", first ? "" : ",", rc);
        sqlite3_finalize(st);
    }
    ob_putc(b, ']');
}

static void rawdump_cif(obuf *b, cif_tp *cif) {
    sqlite3 *db = cif->db;
    ob_putc(b, '{');
    raw_query(b, db, "container", "select id, next_loop_num from container order by id"); ob_putc(b, ',');
    raw_query(b, db, "data_block", "select container_id, name, name_orig from data_block order by container_id"); ob_putc(b, ',');
    raw_query(b, db, "save_frame", "select container_id, parent_id, name, name_orig from save_frame order by container_id"); ob_putc(b, ',');
    raw_query(b, db, "loop", "select container_id, loop_num, category, last_row_num from loop order by container_id, loop_num"); ob_putc(b, ',');
    raw_query(b, db, "loop_item", "select container_id, name, name_orig, loop_num from loop_item order by container_id, name"); ob_putc(b, ',');
    raw_query(b, db, "item_value", "select container_id, name, row_num, kind, quoted, val, val_text, val_digits, su_digits, scale "
                                  "from item_value order by container_id, name, row_num");
    ob_printf(b, ",\"autocommit\":%d}", sqlite3_get_autocommit(db));
}
#endif
