/*
 * strcheck - C18: cif_analyze_string statistics and delimiter recommendation agree with what the CIF 2.0 parser reads
 * back; cif_value_set_quoted(NOT_QUOTED) and cif_is_reserved_string against independent predicates.
 * Exhaustive over all strings up to a length bound over the syntactically significant alphabet.
 * usage: strcheck <tier> <nworkers> <worker>
 */
#include <stdio.h>
#include <stdlib.h>
#include <string.h>
#include <stdarg.h>
#include <ctype.h>
#include <unicode/ustring.h>
#include "cif.h"

static int NW = 1, WK = 0, THOROUGH = 0;
static long nviol = 0, evals = 0, nontriv = 0, parses = 0;
#define MAXV 60

static void viol(const char *fam, const char *fmt, ...) {
    va_list ap;
    nviol++;
    if (nviol > MAXV) return;
    printf("V %s ", fam);
    va_start(ap, fmt); vprintf(fmt, ap); va_end(ap);
    printf("\n");
}
static const char *show(const char *s) {
    static char buf[8][600]; static int k = 0; char *b = buf[k = (k + 1) % 8]; int n = 0;
    b[n++] = '"';
    for (; *s && n < 580; s++) {
        if (*s == '\n') { b[n++] = '\\'; b[n++] = 'n'; } else if (*s == '\r') { b[n++] = '\\'; b[n++] = 'r'; }
        else if (*s == '\t') { b[n++] = '\\'; b[n++] = 't'; } else if (*s == '"' || *s == '\\') { b[n++] = '\\'; b[n++] = *s; }
        else b[n++] = *s;
    }
    b[n++] = '"'; b[n] = 0;
    return b;
}
static void to_u(const char *s, UChar *u) { size_t i; for (i = 0; s[i]; i++) u[i] = (UChar)(unsigned char) s[i]; u[i] = 0; }
static void to_a(const UChar *u, char *s, size_t cap) { size_t i; for (i = 0; u[i] && i + 1 < cap; i++) s[i] = (u[i] < 128) ? (char) u[i] : '?'; s[i] = 0; }

/* ---------- independent definitions ---------- */
struct stats { int length, nlines, first, last, max, semirun, nlsemi, trail_before_eol, trail_at_end; };
static void my_stats(const char *s, struct stats *st) {
    int i = 0, cur = 0, run = 0, line = 0; memset(st, 0, sizeof *st);
    st->length = (int) strlen(s); st->nlines = 1;
    while (s[i]) {
        int eol = 0, w = 1;
        if (s[i] == '\r' && s[i + 1] == '\n') { eol = 1; w = 2; } else if (s[i] == '\r' || s[i] == '\n') eol = 1;
        if (eol) {
            if (i > 0 && (s[i - 1] == ' ' || s[i - 1] == '\t')) st->trail_before_eol = 1;
            if (line == 0) st->first = cur;
            if (cur > st->max) st->max = cur;
            if (s[i + w] == ';') st->nlsemi = 1;
            cur = 0; run = 0; line++; st->nlines++;
            i += w;
        } else {
            if (s[i] == ';') { run++; if (run > st->semirun) st->semirun = run; } else run = 0;
            cur++; i++;
        }
    }
    if (line == 0) st->first = cur;
    st->last = cur; if (cur > st->max) st->max = cur;
    if (st->length > 0 && (s[st->length - 1] == ' ' || s[st->length - 1] == '\t')) st->trail_at_end = 1;
}
static int ieq(const char *s, const char *w, int exact) {
    size_t i, n = strlen(w);
    for (i = 0; i < n; i++) if (tolower((unsigned char) s[i]) != w[i]) return 0;
    return exact ? s[n] == 0 : 1;
}
static int my_reserved(const char *s) {
    if (s[0] == '_' || s[0] == '#' || s[0] == '$' || s[0] == '\'' || s[0] == '"') return 1;
    return ieq(s, "data_", 0) || ieq(s, "save_", 0) || ieq(s, "loop_", 1) || ieq(s, "stop_", 1) || ieq(s, "global_", 1);
}
/* may the character value be presented whitespace-delimited in CIF 2.0 (not at the start of a line)? */
static int my_bare(const char *s) {
    const char *p;
    if (!s[0]) return 0;
    for (p = s; *p; p++) if (*p == ' ' || *p == '\t' || *p == '\n' || *p == '\r' || *p == '[' || *p == ']' || *p == '{' || *p == '}') return 0;
    if (my_reserved(s)) return 0;
    return 1;
}

/* ---------- parse-back probe ---------- */
struct got { int nerr, nitems, kind, quoted; char text[700]; int firsterr; int textlen; };
static int err_cb(int code, size_t line, size_t col, const UChar *t, size_t len, void *d) {
    struct got *g = (struct got *) d; (void) line; (void) col; (void) t; (void) len;
    if (!g->nerr) g->firsterr = code; g->nerr++; return 0;
}
static UChar WANT_NAME[] = { '_', 'v', 0 };
static int item_cb(UChar *name, cif_value_tp *v, void *d) {
    struct got *g = (struct got *) d;
    if (name && u_strcmp(name, WANT_NAME) == 0) {
        UChar *t = NULL;
        g->nitems++; g->kind = (int) cif_value_kind(v); g->quoted = (int) cif_value_is_quoted(v);
        g->text[0] = 0;
        if (cif_value_get_text(v, &t) == CIF_OK && t) { to_a(t, g->text, sizeof g->text); g->textlen = (int) u_strlen(t); free(t); }
    }
    return CIF_TRAVERSE_CONTINUE;
}
static cif_tp *HOST = NULL;
static int SYNTAX_ONLY = 0;   /* syntax-only parses (no target CIF) are 20x cheaper; one layout per string still stores */
static void probe(const char *doc, size_t doclen, struct got *g) {
    struct cif_parse_opts_s *o = NULL; cif_handler_tp h; FILE *f; cif_tp *target = HOST; cif_block_tp *b = NULL;
    static const UChar code[] = { 'd', 0 };
    memset(g, 0, sizeof *g); memset(&h, 0, sizeof h);
    if (cif_parse_options_create(&o) != CIF_OK) return;
    h.handle_item = item_cb; o->handler = &h; o->error_callback = err_cb; o->user_data = g;
    f = fmemopen((void *) doc, doclen, "rb");
    if (cif_parse(f, o, SYNTAX_ONLY ? NULL : &target) != CIF_OK) g->nerr += 1000;
    fclose(f); free(o); parses++;
    if (!SYNTAX_ONLY && cif_get_block(HOST, code, &b) == CIF_OK) (void) cif_container_destroy(b);
}

/* present s with the recommended delimiter (my own encoder for the text-field protocols) */
static size_t presentation(const char *s, const struct cif_string_analysis_s *a, char *out) {
    char d[8]; size_t n = 0; to_a(a->delim, d, sizeof d);
    if (a->delim_length == 0) { strcpy(out, s); return strlen(s); }
    if (a->delim_length == 1 || a->delim_length == 3) { n = (size_t) sprintf(out, "%s%s%s", d, s, d); return n; }
    /* text field: always written with the prefix protocol, which is safe for every content without CR */
    out[n++] = '\n'; out[n++] = ';'; out[n++] = '>'; out[n++] = '\\'; out[n++] = '\n'; out[n++] = '>';
    for (; *s; s++) { out[n++] = *s; if (*s == '\n') out[n++] = '>'; }
    out[n++] = '\n'; out[n++] = ';'; out[n] = 0;
    return n;
}

static void check_readback(const char *s, const struct cif_string_analysis_s *a, int allow_unq, int allow_tri) {
    static char pres[3000], doc[9000]; struct got g; size_t pl = presentation(s, a, pres), n; int layout;
    int want_quoted = a->delim_length != 0; int single = (strchr(pres, '\n') == NULL);
    for (layout = 0; layout < 4; layout++) {
        if (layout == 3 && (!single || pl + 4 > 2048)) continue;
        n = 0;
        n += (size_t) sprintf(doc + n, "#\\#CIF_2.0\ndata_d\n");
        if (layout == 0) n += (size_t) sprintf(doc + n, "_v %s\n", pres);
        else if (layout == 1) n += (size_t) sprintf(doc + n, "_w x\n_v\n%s\n_z 1\n", pres[0] == '\n' ? pres + 1 : pres);     /* at column 1 */
        else if (layout == 2) n += (size_t) sprintf(doc + n, "loop_ _u _v\n1 %s 2 %s\n", pres, pres);                      /* after another value */
        else { size_t pad = 2048 - 2 - pl; n += (size_t) sprintf(doc + n, "_v%*s%s\n", (int) pad, "", pres); }             /* ends at the last column */
        SYNTAX_ONLY = (layout != 0);
        probe(doc, n, &g);
        SYNTAX_ONLY = 0;
        {
            int expect_items = (layout == 2) ? 2 : 1;
            if (g.nerr || g.nitems != expect_items || g.kind != CIF_CHAR_KIND || strcmp(g.text, s) != 0 || (g.quoted != 0) != want_quoted)
                viol("readback", "%s (allow_unquoted=%d allow_triple=%d): recommended delimiter %s, layout %d: parser reported %d error(s) (first %d), %d item(s), kind %d quoted %d text %s",
                     show(s), allow_unq, allow_tri, a->delim_length == 0 ? "(none)" : show(pres), layout, g.nerr, g.firsterr, g.nitems, g.kind, g.quoted, show(g.text));
        }
    }
}

static void check_string(const char *s, int do_parse) {
    static const int limits[] = { 2048, 12, 8, 6, 3 };
    UChar u[64]; struct stats st; int au, at; size_t li;
    to_u(s, u); my_stats(s, &st);
    for (li = 0; li < sizeof limits / sizeof limits[0]; li++) for (au = 0; au < 2; au++) for (at = 0; at < 2; at++) {
        struct cif_string_analysis_s a; int lim = limits[li]; char d[8]; int rc;
        memset(&a, 0x5a, sizeof a);
        rc = cif_analyze_string(u, au, at, lim, &a);
        evals++;
        if (rc != CIF_OK) { viol("analyze", "%s: cif_analyze_string returned %d", show(s), rc); continue; }
        to_a(a.delim, d, sizeof d);
        /* O1: statistics (reported once per string) */
        if (li == 0 && au == 0 && at == 0) if (a.length != st.length || a.num_lines != st.nlines || a.length_first != st.first || a.length_last != st.last || a.length_max != st.max
            || a.max_semi_run != st.semirun || (a.contains_text_delim != 0) != st.nlsemi
            || ((a.has_trailing_ws != 0) != (st.trail_before_eol || st.trail_at_end) && (a.has_trailing_ws != 0) != st.trail_before_eol))
            viol("stats", "%s: length %d lines %d first %d last %d max %d semis %d nl-semi %d trailing-ws %d; exact values %d %d %d %d %d %d %d %d(or %d)", show(s),
                 a.length, a.num_lines, a.length_first, a.length_last, a.length_max, a.max_semi_run, a.contains_text_delim, a.has_trailing_ws,
                 st.length, st.nlines, st.first, st.last, st.max, st.semirun, st.nlsemi, st.trail_before_eol, st.trail_before_eol || st.trail_at_end);
        /* O2a: the delimiter is one the arguments permit, and it is structurally usable */
        if (a.delim_length != strlen(d)) viol("delim", "%s: delim_length %u for delimiter %s", show(s), a.delim_length, show(d));
        if (a.delim_length == 0) {
            if (!au) viol("delim", "%s: whitespace-delimited form recommended although allow_unquoted = 0", show(s));
            if (!my_bare(s) || s[0] == ';' || !strcmp(s, "?") || !strcmp(s, ".") || st.nlines != 1) viol("delim", "%s: whitespace-delimited form recommended for a value that cannot be presented that way", show(s));
            if (st.max > lim) viol("delim", "%s: does not fit the length limit %d bare", show(s), lim);
        } else if (a.delim_length == 1) {
            if (strcmp(d, "'") && strcmp(d, "\"")) viol("delim", "%s: odd delimiter %s", show(s), show(d));
            else if (strchr(s, d[0]) || st.nlines != 1 || st.length + 2 > lim) viol("delim", "%s: delimiter %s cannot present it within %d", show(s), d, lim);
        } else if (a.delim_length == 3) {
            if (!at) viol("delim", "%s: triple-quoted form recommended although allow_triple_quoted = 0", show(s));
            if ((strcmp(d, "'''") && strcmp(d, "\"\"\"")) ) viol("delim", "%s: odd delimiter %s", show(s), show(d));
            else if (strstr(s, d) || (st.length && s[st.length - 1] == d[0]) || st.first + 3 > lim || st.last + 3 > lim || st.max > lim)
                viol("delim", "%s: delimiter %s cannot present it within %d", show(s), d, lim);
        } else if (a.delim_length == 2) {
            if (strcmp(d, "\n;")) viol("delim", "%s: odd delimiter %s", show(s), show(d));
        } else viol("delim", "%s: delim_length %u", show(s), a.delim_length);
        /* O3: the simple forms are recommended whenever the string is one line that admits them with room to spare */
        if (st.nlines == 1) {
            if (au && my_bare(s) && s[0] != ';' && strcmp(s, "?") && strcmp(s, ".") && st.length <= lim) {
                if (a.delim_length != 0) viol("simple", "%s: can be presented whitespace-delimited (limit %d) but %s was recommended", show(s), lim, show(d));
            } else if ((!strchr(s, '\'') || !strchr(s, '"')) && st.length + 2 <= lim) {
                if (a.delim_length != 1 && !(a.delim_length == 0)) viol("simple", "%s: can be presented in single quotes (limit %d) but %s was recommended", show(s), lim, show(d));
            }
        }
        if (a.delim_length) nontriv++;
        /* O2b: read back by the CIF 2.0 parser (real line limit only; CR cannot round-trip through a value) */
        if (do_parse && lim == 2048 && !strchr(s, '\r')) check_readback(s, &a, au, at);
    }
    /* O4: set_quoted(NOT_QUOTED) and the scanner agree with the grammar predicate */
    {
        cif_value_tp *v = NULL; int rc, want_ok = my_bare(s);
        evals++;
        if (cif_value_create(CIF_UNK_KIND, &v) == CIF_OK && cif_value_copy_char(v, u) == CIF_OK) {
            rc = cif_value_set_quoted(v, CIF_NOT_QUOTED);
            if (want_ok ? rc != CIF_OK : rc == CIF_OK) viol("set_quoted", "%s: set_quoted(NOT_QUOTED) returned %d, CIF 2.0 %s it whitespace-delimited", show(s), rc, want_ok ? "allows" : "does not allow");
            if (rc == CIF_OK) {
                int k = (int) cif_value_kind(v);
                if (!strcmp(s, "?") ? k != CIF_UNK_KIND : !strcmp(s, ".") ? k != CIF_NA_KIND : (k != CIF_CHAR_KIND || cif_value_is_quoted(v) != CIF_NOT_QUOTED))
                    viol("set_quoted", "%s: after set_quoted(NOT_QUOTED) kind %d quoted %d", show(s), k, (int) cif_value_is_quoted(v));
            } else if (cif_value_kind(v) != CIF_CHAR_KIND || cif_value_is_quoted(v) != CIF_QUOTED) viol("set_quoted", "%s: a refused set_quoted changed the value", show(s));
        }
        if (v) cif_value_free(v);
        if ((cif_is_reserved_string(u) != 0) != my_reserved(s)) viol("reserved", "%s: cif_is_reserved_string = %d, predicate %d", show(s), cif_is_reserved_string(u), my_reserved(s));
        if (do_parse && s[0] && !strchr(s, '\r') && !strchr(s, '\n') && !strchr(s, ' ') && !strchr(s, '\t')) {
            /* the scanner: the text as a bare token in mid-line reads back unquoted and without error iff the predicate holds */
            static char doc[400]; struct got g; size_t n = (size_t) sprintf(doc, "#\\#CIF_2.0\ndata_d\n_v %s\n", s);
            int clean;
            SYNTAX_ONLY = 1; probe(doc, n, &g); SYNTAX_ONLY = 0;
            clean = (g.nerr == 0 && g.nitems == 1 && ((g.kind == CIF_CHAR_KIND && g.quoted == 0 && !strcmp(g.text, s)) || (!strcmp(s, "?") && g.kind == CIF_UNK_KIND) || (!strcmp(s, ".") && g.kind == CIF_NA_KIND)));
            if (want_ok && !clean) viol("scanner", "bare %s: CIF 2.0 allows it whitespace-delimited but the parser reported %d error(s) (first %d), %d item(s) kind %d quoted %d text %s", show(s), g.nerr, g.firsterr, g.nitems, g.kind, g.quoted, show(g.text));
            if (!want_ok && clean) viol("scanner", "bare %s: not a whitespace-delimited value in CIF 2.0, yet the parser read it as one without error", show(s));
        }
    }
}

static void all_strings(const char *alpha, int L, int do_parse, const char *label) {
    int n = (int) strlen(alpha), len; long idx = 0, e0 = evals, n0 = nontriv;
    for (len = 0; len <= L; len++) {
        long total = 1, k; int i;
        for (i = 0; i < len; i++) total *= n;
        for (k = 0; k < total; k++, idx++) {
            char s[16]; long t = k;
            if (idx % NW != WK) continue;
            for (i = len - 1; i >= 0; i--) { s[i] = alpha[t % n]; t /= n; }
            s[len] = 0;
            check_string(s, do_parse);
        }
    }
    printf("S %s %ld %ld\n", label, evals - e0, nontriv - n0);
}

static void reserved_words(void) {
    static const char *words[] = { "data_", "data_x", "save_", "save_x", "loop_", "stop_", "global_", "data", "dat_a", "loop_x", "stop_x", "global_x", "globals_", "lo_op", "sav_e", "xdata_" };
    size_t w; long e0 = evals;
    for (w = 0; w < sizeof words / sizeof words[0]; w++) {
        size_t n = strlen(words[w]); unsigned m;
        if ((int) (w % NW) != WK % NW && NW <= 16) { if ((long) w % NW != WK) continue; }
        for (m = 0; m < (1u << n); m++) {
            char s[16]; size_t i;
            for (i = 0; i < n; i++) s[i] = (m >> i) & 1 ? (char) toupper((unsigned char) words[w][i]) : words[w][i];
            s[n] = 0;
            check_string(s, 1);
        }
    }
    printf("S reserved-words %ld %ld\n", evals - e0, 0L);
}

static void long_lines(void) {
    /* the thresholds limit-6, limit-3, limit-2, limit with the real limit: a^n, with one quote of each kind */
    int n; long e0 = evals; static char s[2200];
    for (n = 2036; n <= 2052; n++) {
        if (n % NW != WK) continue;
        memset(s, 'a', (size_t) n); s[n] = 0;
        { UChar u[2200]; struct cif_string_analysis_s a; int au, at; struct stats st; to_u(s, u); my_stats(s, &st);
          for (au = 0; au < 2; au++) for (at = 0; at < 2; at++) {
              cif_analyze_string(u, au, at, 2048, &a); evals++;
              if (a.length != n || a.length_max != n) viol("stats", "a^%d: length %d max %d", n, a.length, a.length_max);
              if (au && n <= 2048 && a.delim_length != 0) viol("simple", "a^%d fits bare but delimiter length %u recommended", n, a.delim_length);
              if (!au && n + 2 <= 2048 && a.delim_length != 1) viol("simple", "a^%d fits in single quotes but delimiter length %u recommended", n, a.delim_length);
              if (a.delim_length == 0 && n > 2048) viol("delim", "a^%d recommended bare beyond the limit", n);
              if (a.delim_length == 1 && n + 2 > 2048) viol("delim", "a^%d recommended single-quoted beyond the limit", n);
              if (a.delim_length == 3 && n + 6 > 2048) viol("delim", "a^%d recommended triple-quoted beyond the limit", n);
              if (a.delim_length != 2 && n + 2 * (int) a.delim_length <= 2048) {
                  /* read back at the start of a line */
                  static char doc[4600]; struct got g; char d[8]; size_t dn; to_a(a.delim, d, sizeof d);
                  dn = (size_t) sprintf(doc, "#\\#CIF_2.0\ndata_d\n_v\n%s%s%s\n", d, s, d);
                  probe(doc, dn, &g);
                  if (g.nerr || g.nitems != 1 || g.textlen != n) viol("readback", "a^%d with delimiter %s: %d error(s) (first %d), text length %d", n, show(d), g.nerr, g.firsterr, g.textlen);
              }
          } }
    }
    printf("S long-lines %ld %ld\n", evals - e0, 0L);
}

int main(int argc, char **argv) {
    const char *tier = argc > 1 ? argv[1] : "quick";
    NW = argc > 2 ? atoi(argv[2]) : 1; WK = argc > 3 ? atoi(argv[3]) : 0;
    THOROUGH = strcmp(tier, "thorough") == 0;
    if (cif_create(&HOST) != CIF_OK) { printf("V setup cif_create failed\n"); return 1; }
    all_strings("a \t'\";\n\r#_$[]{}?.\\", THOROUGH ? 5 : 4, 1, "all-strings");
    all_strings("'\";\na", THOROUGH ? 8 : 6, 1, "quote-strings");
    reserved_words();
    long_lines();
    printf("P %ld\n", parses);
    printf("D %ld\n", nviol);
    cif_destroy(HOST);
    return 0;
}
