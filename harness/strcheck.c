/*
 * strcheck - C18: cif_analyze_string statistics and delimiter recommendation agree with what the CIF 2.0 parser reads
 * back; cif_value_set_quoted(NOT_QUOTED) and cif_is_reserved_string against independent predicates.
 * Exhaustive over all strings up to a length bound over the syntactically significant alphabet (and over an alphabet
 * of non-ASCII code units, including ones whose low bits alias significant ASCII characters, and a surrogate pair).
 * usage: strcheck <tier> <nworkers> <worker>
 */
#include <stdio.h>
#include <stdlib.h>
#include <string.h>
#include <stdarg.h>
#include <ctype.h>
#include <unicode/ustring.h>
#include "cif.h"

static int NW = 1, WK = 0, THOROUGH = 0;
static long nviol = 0, evals = 0, nontriv = 0, parses = 0;
#define MAXV 60

static void viol(const char *fam, const char *fmt, ...) {
    va_list ap;
    nviol++;
    if (nviol > MAXV) return;
    printf("V %s ", fam);
    va_start(ap, fmt); vprintf(fmt, ap); va_end(ap);
    printf("\n");
}
static const char *show(const UChar *s) {
    static char buf[8][1000]; static int k = 0; char *b = buf[k = (k + 1) % 8]; int n = 0;
    b[n++] = '"';
    for (; *s && n < 960; s++) {
        if (*s == '\n') { b[n++] = '\\'; b[n++] = 'n'; } else if (*s == '\r') { b[n++] = '\\'; b[n++] = 'r'; }
        else if (*s == '\t') { b[n++] = '\\'; b[n++] = 't'; } else if (*s == '"' || *s == '\\') { b[n++] = '\\'; b[n++] = (char) *s; }
        else if (*s < 0x7f && *s >= 0x20) b[n++] = (char) *s;
        else n += sprintf(b + n, "\\u%04X", (unsigned) *s);
    }
    b[n++] = '"'; b[n] = 0;
    return b;
}
static int has(const UChar *s, UChar c) { for (; *s; s++) if (*s == c) return 1; return 0; }
static int eq_a(const UChar *s, const char *a) { for (; *a; a++, s++) if (*s != (UChar)(unsigned char) *a) return 0; return *s == 0; }
static int ulen(const UChar *s) { int n = 0; while (s[n]) n++; return n; }
static const UChar *ufind(const UChar *s, const UChar *sub) { int n = ulen(sub); for (; *s; s++) if (u_strncmp(s, sub, n) == 0) return s; return NULL; }

/* ---------- independent definitions ---------- */
struct stats { int length, nlines, first, last, max, semirun, nlsemi, trail_before_eol, trail_at_end; };
static void my_stats(const UChar *s, struct stats *st) {
    int i = 0, cur = 0, run = 0, line = 0; memset(st, 0, sizeof *st);
    st->length = ulen(s); st->nlines = 1;
    while (s[i]) {
        int eol = 0, w = 1;
        if (s[i] == '\r' && s[i + 1] == '\n') { eol = 1; w = 2; } else if (s[i] == '\r' || s[i] == '\n') eol = 1;
        if (eol) {
            if (i > 0 && (s[i - 1] == ' ' || s[i - 1] == '\t')) st->trail_before_eol = 1;
            if (line == 0) st->first = cur;
            if (cur > st->max) st->max = cur;
            if (s[i + w] == ';') st->nlsemi = 1;
            cur = 0; run = 0; line++; st->nlines++;
            i += w;
        } else {
            if (s[i] == ';') { run++; if (run > st->semirun) st->semirun = run; } else run = 0;
            cur++; i++;
        }
    }
    if (line == 0) st->first = cur;
    st->last = cur; if (cur > st->max) st->max = cur;
    if (st->length > 0 && (s[st->length - 1] == ' ' || s[st->length - 1] == '\t')) st->trail_at_end = 1;
}
static int ieq(const UChar *s, const char *w, int exact) {
    size_t i, n = strlen(w);
    for (i = 0; i < n; i++) if (s[i] >= 128 || tolower((int) s[i]) != w[i]) return 0;
    return exact ? s[n] == 0 : 1;
}
static int my_reserved(const UChar *s) {
    if (s[0] == '_' || s[0] == '#' || s[0] == '$' || s[0] == '\'' || s[0] == '"') return 1;
    return ieq(s, "data_", 0) || ieq(s, "save_", 0) || ieq(s, "loop_", 1) || ieq(s, "stop_", 1) || ieq(s, "global_", 1);
}
/* may the character value be presented whitespace-delimited in CIF 2.0 (not at the start of a line)? */
static int my_bare(const UChar *s) {
    const UChar *p;
    if (!s[0]) return 0;
    for (p = s; *p; p++) if (*p == ' ' || *p == '\t' || *p == '\n' || *p == '\r' || *p == '[' || *p == ']' || *p == '{' || *p == '}') return 0;
    if (my_reserved(s)) return 0;
    return 1;
}

/* ---------- parse-back probe ---------- */
struct got { int nerr, nitems, kind, quoted; UChar text[3000]; int firsterr; int textlen; };
static int err_cb(int code, size_t line, size_t col, const UChar *t, size_t len, void *d) {
    struct got *g = (struct got *) d; (void) line; (void) col; (void) t; (void) len;
    if (!g->nerr) g->firsterr = code; g->nerr++; return 0;
}
static UChar WANT_NAME[] = { '_', 'v', 0 };
static int item_cb(UChar *name, cif_value_tp *v, void *d) {
    struct got *g = (struct got *) d;
    if (name && u_strcmp(name, WANT_NAME) == 0) {
        UChar *t = NULL;
        g->nitems++; g->kind = (int) cif_value_kind(v); g->quoted = (int) cif_value_is_quoted(v);
        g->text[0] = 0; g->textlen = 0;
        if (cif_value_get_text(v, &t) == CIF_OK && t) { g->textlen = ulen(t); if (g->textlen < 2999) u_strcpy(g->text, t); free(t); }
    }
    return CIF_TRAVERSE_CONTINUE;
}
static cif_tp *HOST = NULL;
static int SYNTAX_ONLY = 0;   /* syntax-only parses (no target CIF) are 20x cheaper; one layout per string still stores */
/* doc: UChar text, converted to UTF-8 here */
static void probe(const UChar *doc, struct got *g) {
    struct cif_parse_opts_s *o = NULL; cif_handler_tp h; FILE *f; cif_tp *target = HOST; cif_block_tp *b = NULL;
    static const UChar code[] = { 'd', 0 }; static char utf8[20000]; int32_t n = 0; UErrorCode e = U_ZERO_ERROR;
    g->nerr = g->nitems = g->kind = g->quoted = g->firsterr = g->textlen = 0; g->text[0] = 0; memset(&h, 0, sizeof h);
    u_strToUTF8(utf8, sizeof utf8, &n, doc, -1, &e);
    if (U_FAILURE(e)) { g->nerr = 9999; return; }
    if (cif_parse_options_create(&o) != CIF_OK) return;
    h.handle_item = item_cb; o->handler = &h; o->error_callback = err_cb; o->user_data = g;
    f = fmemopen((void *) utf8, (size_t) n, "rb");
    if (cif_parse(f, o, SYNTAX_ONLY ? NULL : &target) != CIF_OK) g->nerr += 1000;
    fclose(f); free(o); parses++;
    if (!SYNTAX_ONLY && cif_get_block(HOST, code, &b) == CIF_OK) (void) cif_container_destroy(b);
}
static int uputs(UChar *d, const char *a) { int n = 0; for (; *a; a++) d[n++] = (UChar)(unsigned char) *a; d[n] = 0; return n; }
static int ucat(UChar *d, const UChar *s) { int n = 0; for (; *s; s++) d[n++] = *s; d[n] = 0; return n; }

/* present s with the recommended delimiter (my own encoder for the text-field protocols) */
static int presentation(const UChar *s, const struct cif_string_analysis_s *a, UChar *out) {
    int n = 0;
    if (a->delim_length == 0) return ucat(out, s);
    if (a->delim_length == 1 || a->delim_length == 3) { n += ucat(out + n, a->delim); n += ucat(out + n, s); n += ucat(out + n, a->delim); return n; }
    /* text field: always written with the prefix protocol, which is safe for every content without CR */
    n += uputs(out + n, "\n;>\\\n>");
    for (; *s; s++) { out[n++] = *s; if (*s == '\n') out[n++] = '>'; }
    n += uputs(out + n, "\n;");
    return n;
}

static void check_readback(const UChar *s, const struct cif_string_analysis_s *a, int allow_unq, int allow_tri) {
    static UChar pres[3000], doc[9000]; struct got g; int n, layout;
    int want_quoted = a->delim_length != 0; int single, cols;
    (void) presentation(s, a, pres);
    single = !has(pres, '\n');
    cols = u_countChar32(pres, -1);     /* the line limit counts characters */
    for (layout = 0; layout < 4; layout++) {
        if (layout == 3 && (!single || cols + 4 > 2048)) continue;
        n = uputs(doc, "#\\#CIF_2.0\ndata_d\n");
        if (layout == 0) { n += uputs(doc + n, "_v "); n += ucat(doc + n, pres); n += uputs(doc + n, "\n"); }
        else if (layout == 1) { n += uputs(doc + n, "_w x\n_v\n"); n += ucat(doc + n, pres[0] == '\n' ? pres + 1 : pres); n += uputs(doc + n, "\n_z 1\n"); }
        else if (layout == 2) { n += uputs(doc + n, "loop_ _u _v\n1 "); n += ucat(doc + n, pres); n += uputs(doc + n, " 2 "); n += ucat(doc + n, pres); n += uputs(doc + n, "\n"); }
        else { int pad = 2048 - 2 - cols; n += uputs(doc + n, "_v"); while (pad-- > 0) doc[n++] = ' '; doc[n] = 0; n += ucat(doc + n, pres); n += uputs(doc + n, "\n"); }
        SYNTAX_ONLY = (layout != 0);
        probe(doc, &g);
        SYNTAX_ONLY = 0;
        {
            int expect_items = (layout == 2) ? 2 : 1;
            if (g.nerr || g.nitems != expect_items || g.kind != CIF_CHAR_KIND || u_strcmp(g.text, s) != 0 || (g.quoted != 0) != want_quoted)
                viol("readback", "%s (allow_unquoted=%d allow_triple=%d): recommended delimiter %s, layout %d: parser reported %d error(s) (first %d), %d item(s), kind %d quoted %d text %s",
                     show(s), allow_unq, allow_tri, a->delim_length == 0 ? "(none)" : show(pres), layout, g.nerr, g.firsterr, g.nitems, g.kind, g.quoted, show(g.text));
        }
    }
}

static void check_string(const UChar *u, int do_parse) {
    static const int limits[] = { 2048, 12, 8, 6, 3 };
    struct stats st; int au, at; size_t li;
    static const UChar q1[] = { '\'', 0 }, q2[] = { '"', 0 }, t1[] = { '\'', '\'', '\'', 0 }, t2[] = { '"', '"', '"', 0 }, tx[] = { '\n', ';', 0 };
    my_stats(u, &st);
    for (li = 0; li < sizeof limits / sizeof limits[0]; li++) for (au = 0; au < 2; au++) for (at = 0; at < 2; at++) {
        struct cif_string_analysis_s a; int lim = limits[li]; int rc; const UChar *d;
        memset(&a, 0x5a, sizeof a);
        rc = cif_analyze_string(u, au, at, lim, &a);
        evals++;
        if (rc != CIF_OK) { viol("analyze", "%s: cif_analyze_string returned %d", show(u), rc); continue; }
        /* the two flags are documented as "zero if not acceptable, otherwise nonzero": any nonzero value means the same */
        if (au || at) {
            static const int nz[] = { 2, -1, 0x100 }; int k;
            for (k = 0; k < 3; k++) {
                struct cif_string_analysis_s b; memset(&b, 0x5a, sizeof b);
                if (cif_analyze_string(u, au ? nz[k] : 0, at ? nz[(k + 1) % 3] : 0, lim, &b) != CIF_OK || memcmp(&a, &b, sizeof a) != 0)
                    viol("flags", "%s: the analysis with allow_unquoted=%d allow_triple_quoted=%d differs from the one with %d / %d", show(u), au ? nz[k] : 0, at ? nz[(k + 1) % 3] : 0, au, at);
                evals++;
            }
        }
        d = a.delim;
        /* O1: statistics (reported once per string) */
        if (li == 0 && au == 0 && at == 0) if (a.length != st.length || a.num_lines != st.nlines || a.length_first != st.first || a.length_last != st.last || a.length_max != st.max
            || a.max_semi_run != st.semirun || (a.contains_text_delim != 0) != st.nlsemi
            || ((a.has_trailing_ws != 0) != (st.trail_before_eol || st.trail_at_end) && (a.has_trailing_ws != 0) != st.trail_before_eol))
            viol("stats", "%s: length %d lines %d first %d last %d max %d semis %d nl-semi %d trailing-ws %d; exact values %d %d %d %d %d %d %d %d(or %d)", show(u),
                 a.length, a.num_lines, a.length_first, a.length_last, a.length_max, a.max_semi_run, a.contains_text_delim, a.has_trailing_ws,
                 st.length, st.nlines, st.first, st.last, st.max, st.semirun, st.nlsemi, st.trail_before_eol, st.trail_before_eol || st.trail_at_end);
        /* O2a: the delimiter is one the arguments permit, and it is structurally usable */
        if ((int) a.delim_length != ulen(d)) viol("delim", "%s: delim_length %u for delimiter %s", show(u), a.delim_length, show(d));
        if (a.delim_length == 0) {
            if (!au) viol("delim", "%s: whitespace-delimited form recommended although allow_unquoted = 0", show(u));
            if (!my_bare(u) || u[0] == ';' || eq_a(u, "?") || eq_a(u, ".") || st.nlines != 1) viol("delim", "%s: whitespace-delimited form recommended for a value that cannot be presented that way", show(u));
            if (st.max > lim) viol("delim", "%s: does not fit the length limit %d bare", show(u), lim);
        } else if (a.delim_length == 1) {
            if (u_strcmp(d, q1) && u_strcmp(d, q2)) viol("delim", "%s: odd delimiter %s", show(u), show(d));
            else if (has(u, d[0]) || st.nlines != 1 || st.length + 2 > lim) viol("delim", "%s: delimiter %s cannot present it within %d", show(u), show(d), lim);
        } else if (a.delim_length == 3) {
            if (!at) viol("delim", "%s: triple-quoted form recommended although allow_triple_quoted = 0", show(u));
            if (u_strcmp(d, t1) && u_strcmp(d, t2)) viol("delim", "%s: odd delimiter %s", show(u), show(d));
            else if (ufind(u, d) || (st.length && u[st.length - 1] == d[0]) || st.first + 3 > lim || st.last + 3 > lim || st.max > lim)
                viol("delim", "%s: delimiter %s cannot present it within %d", show(u), show(d), lim);
        } else if (a.delim_length == 2) {
            if (u_strcmp(d, tx)) viol("delim", "%s: odd delimiter %s", show(u), show(d));
        } else viol("delim", "%s: delim_length %u", show(u), a.delim_length);
        /* O3: the simple forms are recommended whenever the string is one line that admits them with room to spare */
        if (st.nlines == 1) {
            if (au && my_bare(u) && u[0] != ';' && !eq_a(u, "?") && !eq_a(u, ".") && st.length <= lim) {
                if (a.delim_length != 0) viol("simple", "%s: can be presented whitespace-delimited (limit %d) but %s was recommended", show(u), lim, show(d));
            } else if ((!has(u, '\'') || !has(u, '"')) && st.length + 2 <= lim) {
                if (a.delim_length != 1 && !(a.delim_length == 0)) viol("simple", "%s: can be presented in single quotes (limit %d) but %s was recommended", show(u), lim, show(d));
            }
        }
        if (a.delim_length) nontriv++;
        /* O2b: read back by the CIF 2.0 parser (real line limit only; CR cannot round-trip through a value) */
        if (do_parse && lim == 2048 && !has(u, '\r')) check_readback(u, &a, au, at);
    }
    /* O4: set_quoted(NOT_QUOTED) and the scanner agree with the grammar predicate */
    {
        cif_value_tp *v = NULL; int rc, want_ok = my_bare(u);
        evals++;
        if (cif_value_create(CIF_UNK_KIND, &v) == CIF_OK && cif_value_copy_char(v, u) == CIF_OK) {
            rc = cif_value_set_quoted(v, CIF_NOT_QUOTED);
            if (want_ok ? rc != CIF_OK : rc == CIF_OK) viol("set_quoted", "%s: set_quoted(NOT_QUOTED) returned %d, CIF 2.0 %s it whitespace-delimited", show(u), rc, want_ok ? "allows" : "does not allow");
            if (rc == CIF_OK) {
                int k = (int) cif_value_kind(v);
                if (eq_a(u, "?") ? k != CIF_UNK_KIND : eq_a(u, ".") ? k != CIF_NA_KIND : (k != CIF_CHAR_KIND || cif_value_is_quoted(v) != CIF_NOT_QUOTED))
                    viol("set_quoted", "%s: after set_quoted(NOT_QUOTED) kind %d quoted %d", show(u), k, (int) cif_value_is_quoted(v));
            } else if (cif_value_kind(v) != CIF_CHAR_KIND || cif_value_is_quoted(v) != CIF_QUOTED) viol("set_quoted", "%s: a refused set_quoted changed the value", show(u));
        }
        if (v) cif_value_free(v);
        if ((cif_is_reserved_string(u) != 0) != my_reserved(u)) viol("reserved", "%s: cif_is_reserved_string = %d, predicate %d", show(u), cif_is_reserved_string(u), my_reserved(u));
        if (do_parse && u[0] && !has(u, '\r') && !has(u, '\n') && !has(u, ' ') && !has(u, '\t')) {
            /* the scanner: the text as a bare token in mid-line reads back unquoted and without error iff the predicate holds */
            static UChar doc[400]; struct got g; int n = uputs(doc, "#\\#CIF_2.0\ndata_d\n_v "), clean;
            n += ucat(doc + n, u); n += uputs(doc + n, "\n");
            SYNTAX_ONLY = 1; probe(doc, &g); SYNTAX_ONLY = 0;
            clean = (g.nerr == 0 && g.nitems == 1 && ((g.kind == CIF_CHAR_KIND && g.quoted == 0 && !u_strcmp(g.text, u)) || (eq_a(u, "?") && g.kind == CIF_UNK_KIND) || (eq_a(u, ".") && g.kind == CIF_NA_KIND)));
            if (want_ok && !clean) viol("scanner", "bare %s: CIF 2.0 allows it whitespace-delimited but the parser reported %d error(s) (first %d), %d item(s) kind %d quoted %d text %s", show(u), g.nerr, g.firsterr, g.nitems, g.kind, g.quoted, show(g.text));
            if (!want_ok && clean) viol("scanner", "bare %s: not a whitespace-delimited value in CIF 2.0, yet the parser read it as one without error", show(u));
        }
    }
}

/* alphabet: array of UChar sequences (a member may be a surrogate pair) */
static void all_strings(const UChar *const *alpha, int n, int L, int do_parse, const char *label) {
    int len; long idx = 0, e0 = evals, n0 = nontriv;
    for (len = 0; len <= L; len++) {
        long total = 1, k; int i;
        for (i = 0; i < len; i++) total *= n;
        for (k = 0; k < total; k++, idx++) {
            UChar s[40]; int pick[16]; long t = k; int m = 0;
            if (idx % NW != WK) continue;
            for (i = len - 1; i >= 0; i--) { pick[i] = (int) (t % n); t /= n; }
            s[0] = 0;
            for (i = 0; i < len; i++) m += ucat(s + m, alpha[pick[i]]);
            s[m] = 0;
            check_string(s, do_parse);
        }
    }
    printf("S %s %ld %ld\n", label, evals - e0, nontriv - n0);
}
static void all_strings_a(const char *alpha, int L, int do_parse, const char *label) {
    static UChar store[64][2]; static const UChar *ptr[64]; int n = (int) strlen(alpha), i;
    for (i = 0; i < n; i++) { store[i][0] = (UChar)(unsigned char) alpha[i]; store[i][1] = 0; ptr[i] = store[i]; }
    all_strings(ptr, n, L, do_parse, label);
}

static void reserved_words(void) {
    static const char *words[] = { "data_", "data_x", "save_", "save_x", "loop_", "stop_", "global_", "data", "dat_a", "loop_x", "stop_x", "global_x", "globals_", "lo_op", "sav_e", "xdata_" };
    size_t w; long e0 = evals;
    for (w = 0; w < sizeof words / sizeof words[0]; w++) {
        size_t n = strlen(words[w]); unsigned m;
        if ((long) w % NW != WK) continue;
        for (m = 0; m < (1u << n); m++) {
            UChar s[16]; size_t i;
            for (i = 0; i < n; i++) s[i] = (UChar) ((m >> i) & 1 ? toupper((unsigned char) words[w][i]) : words[w][i]);
            s[n] = 0;
            check_string(s, 1);
        }
    }
    printf("S reserved-words %ld %ld\n", evals - e0, 0L);
}

static void long_lines(void) {
    /* the thresholds limit-6, limit-3, limit-2, limit with the real limit: a^n */
    int n; long e0 = evals; static UChar s[2300];
    for (n = 2036; n <= 2052; n++) {
        int i;
        if (n % NW != WK) continue;
        for (i = 0; i < n; i++) s[i] = 'a';
        s[n] = 0;
        { struct cif_string_analysis_s a; int au, at;
          for (au = 0; au < 2; au++) for (at = 0; at < 2; at++) {
              cif_analyze_string(s, au, at, 2048, &a); evals++;
              if (a.length != n || a.length_max != n) viol("stats", "a^%d: length %d max %d", n, a.length, a.length_max);
              if (a.delim_length == 0 && n > 2048) viol("delim", "a^%d recommended bare beyond the limit", n);
              if (a.delim_length == 1 && n + 2 > 2048) viol("delim", "a^%d recommended single-quoted beyond the limit", n);
              if (a.delim_length == 3 && n + 6 > 2048) viol("delim", "a^%d recommended triple-quoted beyond the limit", n);
              if (au && n <= 2048 && a.delim_length != 0) viol("simple", "a^%d fits bare but delimiter length %u recommended", n, a.delim_length);
              if (!au && n + 2 <= 2048 && a.delim_length != 1) viol("simple", "a^%d fits in single quotes but delimiter length %u recommended", n, a.delim_length);
              if (a.delim_length != 2 && n + 2 * (int) a.delim_length <= 2048) {
                  /* read back at the start of a line */
                  static UChar doc[4800]; struct got g; int dn = uputs(doc, "#\\#CIF_2.0\ndata_d\n_v\n");
                  dn += ucat(doc + dn, a.delim); dn += ucat(doc + dn, s); dn += ucat(doc + dn, a.delim); dn += uputs(doc + dn, "\n");
                  probe(doc, &g);
                  if (g.nerr || g.nitems != 1 || g.textlen != n) viol("readback", "a^%d with delimiter %s: %d error(s) (first %d), text length %d", n, show(a.delim), g.nerr, g.firsterr, g.textlen);
              }
          } }
    }
    /* multi-line strings with one line at the limit: as first, middle and last line; the recommended text-field or
     * triple-quoted form is read back whenever every line of it stays within the limit */
    for (n = 2040; n <= 2050; n++) {
        int shape;
        if (n % NW != WK) continue;
        for (shape = 0; shape < 3; shape++) {
            static UChar m[2400]; int len = 0, i, au, at, first, last;
            if (shape != 0) { m[len++] = 'b'; m[len++] = '\n'; }
            for (i = 0; i < n; i++) m[len++] = 'a';
            if (shape != 2) { m[len++] = '\n'; m[len++] = 'c'; }
            m[len] = 0;
            first = (shape == 0) ? n : 1; last = (shape == 2) ? n : 1;
            for (au = 0; au < 2; au++) for (at = 0; at < 2; at++) {
                struct cif_string_analysis_s a; static UChar doc[5200]; struct got g; int dn, fits;
                cif_analyze_string(m, au, at, 2048, &a); evals++;
                if (a.length_max != n || a.num_lines != 2 + (shape == 1)) viol("stats", "multi-line shape %d, a^%d: max %d lines %d", shape, n, a.length_max, a.num_lines);
                if (a.delim_length < 2) { viol("delim", "multi-line string recommended with delimiter length %u", a.delim_length); continue; }
                if (a.delim_length == 3 && !at) viol("delim", "triple quotes recommended although not allowed");
                fits = (n <= 2048) && ((a.delim_length == 3) ? (first + 3 <= 2048 && last + 3 <= 2048) : (first + 1 <= 2048));
                if (!fits) continue;
                dn = uputs(doc, "#\\#CIF_2.0\ndata_d\n_v\n");
                dn += ucat(doc + dn, a.delim); dn += ucat(doc + dn, m); dn += ucat(doc + dn, a.delim); dn += uputs(doc + dn, "\n");
                probe(doc, &g);
                if (g.nerr || g.nitems != 1 || g.textlen != len)
                    viol("readback", "multi-line shape %d with a line of %d characters, delimiter %s: %d error(s) (first %d), text length %d of %d", shape, n, show(a.delim), g.nerr, g.firsterr, g.textlen, len);
            }
        }
    }
    printf("S long-lines %ld %ld\n", evals - e0, 0L);
}

/* strings with very many lines or very many occurrences of one significant character (counters of any width must not wrap):
 * statistics and delimiter rules only, no read-back */
static void many_lines(void) {
    static const int counts[] = { 127, 128, 255, 256, 257, 32767, 32768, 65535, 65536, 65537, 131072 };
    static const UChar fill[] = { '\n', '\'', '"', ';', ' ', 'a' };
    static UChar big[131072 + 8]; size_t i, f; long e0 = evals; int job = 0;
    for (i = 0; i < sizeof counts / sizeof counts[0]; i++) for (f = 0; f < sizeof fill / sizeof fill[0]; f++, job++) {
        int n = counts[i], k, len = 0;
        if (job % NW != WK) continue;
        big[len++] = 'a'; big[len++] = 'b';
        for (k = 0; k < n; k++) big[len++] = fill[f];
        big[len++] = 'c'; big[len++] = 'd'; big[len] = 0;
        check_string(big, 0);
    }
    printf("S many-lines %ld %ld\n", evals - e0, 0L);
}

int main(int argc, char **argv) {
    const char *tier = argc > 1 ? argv[1] : "quick";
    /* non-ASCII code units: U+00E9, units whose low 7 bits alias LF, SP, ', ", [, {, ;  and a surrogate pair */
    static const UChar n0[] = { 'a', 0 }, n1[] = { 0xe9, 0 }, n2[] = { 0x010a, 0 }, n3[] = { 0x0120, 0 }, n4[] = { 0x0127, 0 }, n5[] = { 0x0122, 0 },
        n6[] = { 0x015b, 0 }, n7[] = { 0x017b, 0 }, n8[] = { 0x013b, 0 }, n9[] = { 0xd83d, 0xde00, 0 }, n10[] = { '\'', 0 }, n11[] = { '"', 0 }, n12[] = { '\n', 0 };
    static const UChar *const nonascii[] = { n0, n1, n2, n3, n4, n5, n6, n7, n8, n9, n10, n11, n12 };
    NW = argc > 2 ? atoi(argv[2]) : 1; WK = argc > 3 ? atoi(argv[3]) : 0;
    THOROUGH = strcmp(tier, "thorough") == 0;
    if (cif_create(&HOST) != CIF_OK) { printf("V setup cif_create failed\n"); return 1; }
    all_strings_a("a \t'\";\n\r#_$[]{}?.\\", THOROUGH ? 5 : 4, 1, "all-strings");
    all_strings_a("'\";\na", THOROUGH ? 8 : 6, 1, "quote-strings");
    all_strings(nonascii, 13, THOROUGH ? 4 : 3, 1, "non-ascii-strings");
    reserved_words();
    long_lines();
    many_lines();
    printf("P %ld\n", parses);
    printf("D %ld\n", nviol);
    cif_destroy(HOST);
    return 0;
}
