/*
 * cifx - script executor for the /verif explorers.  Reads scripts (command lines terminated by a line ".") on
 * stdin, executes every command against the real cif_api objects compiled from the repository's working tree, and
 * answers one line per command followed by a line ". live=<n>".  See DESIGN.md, Appendix E.
 */
#include <locale.h>
#include <fenv.h>
#include <unicode/ucnv.h>
#include <unicode/uclean.h>
#include "cifx_core.h"

#define NCIF 4
#define NCONT 16
#define NLOOP 16
#define NPKT 8
#define NITR 4
#define NVAL 16
#define NREF 8
#define NBUF 8

static cif_tp *CIFS[NCIF];
static cif_container_tp *CONT[NCONT];
static cif_loop_tp *LOOPS[NLOOP];
static int LOOP_PARENT[NLOOP];  /* container slot a loop handle was derived from (loop handles alias it) */
static cif_packet_tp *PKT[NPKT];
static cif_pktitr_tp *ITR[NITR];
static cif_value_tp *VAL[NVAL];
static cif_value_tp *REF[NREF];   /* borrowed references (never freed by the executor) */
typedef struct { unsigned char *p; size_t n, cap; } bytebuf;
static bytebuf BUF[NBUF];

static int slot(const char *t, char prefix, int max) {
    int i;
    if (!t || t[0] != prefix) return -1;
    i = atoi(t + 1);
    return (i >= 0 && i < max) ? i : -1;
}

static void bb_reserve(bytebuf *b, size_t extra) {
    if (b->n + extra + 1 > b->cap) {
        size_t nc = b->cap ? b->cap * 2 : 256;
        while (nc < b->n + extra + 1) nc *= 2;
        b->p = (unsigned char *) h_realloc(b->p, nc); b->cap = nc;
    }
}
static void bb_append(bytebuf *b, const unsigned char *p, size_t n) { bb_reserve(b, n); memcpy(b->p + b->n, p, n); b->n += n; }
static size_t hex_to_bytes(const char *h, unsigned char **out) {
    size_t l = strlen(h) / 2, i; unsigned char *r = (unsigned char *) h_malloc(l + 1);
    for (i = 0; i < l; i++) r[i] = (unsigned char)((hexval(h[2*i]) << 4) | hexval(h[2*i+1]));
    *out = r; return l;
}

/* ---------- value literals ----------
 *  V<n> slot | R<n> borrowed ref | - NULL | ? unknown | . n/a | c:<hex> quoted char | b:<hex> unquoted char
 *  | n:<hex> number (parse_numb) | [ v ... ] | { <keyhex> v ... }
 * returns 0 on success; *owned tells whether the caller must free *out */
static int parse_value_lit(toks *t, cif_value_tp **out, int *owned) {
    const char *k;
    *out = NULL; *owned = 0;
    if (t->pos >= t->n) return -1;
    k = t->tok[t->pos++];
    if (strcmp(k, "-") == 0) return 0;
    if (k[0] == 'V' && slot(k, 'V', NVAL) >= 0) { *out = VAL[slot(k, 'V', NVAL)]; return 0; }
    if (k[0] == 'R' && slot(k, 'R', NREF) >= 0) { *out = REF[slot(k, 'R', NREF)]; return 0; }
    *owned = 1;
    if (strcmp(k, "?") == 0) return cif_value_create(CIF_UNK_KIND, out) == CIF_OK ? 0 : -2;
    if (strcmp(k, ".") == 0) return cif_value_create(CIF_NA_KIND, out) == CIF_OK ? 0 : -2;
    if ((k[0] == 'c' || k[0] == 'b' || k[0] == 'n' || k[0] == 'N') && k[1] == ':') {   /* N: a number marked as quoted */
        UChar *u = tok_ustr(k + 2, NULL); int rc;
        if (cif_value_create(CIF_UNK_KIND, out) != CIF_OK) { h_free(u); return -2; }
        if (k[0] == 'n' || k[0] == 'N') {
            UChar *lib = cif_u_strdup(u);
            rc = lib ? cif_value_parse_numb(*out, lib) : CIF_MEMORY_ERROR;
            if (rc != CIF_OK && lib) free(lib);
            if (rc == CIF_OK && k[0] == 'N') rc = cif_value_set_quoted(*out, CIF_QUOTED);
        } else {
            rc = cif_value_copy_char(*out, u);
            if (rc == CIF_OK && k[0] == 'b') rc = cif_value_set_quoted(*out, CIF_NOT_QUOTED);
        }
        h_free(u);
        if (rc != CIF_OK) { cif_value_free(*out); *out = NULL; *owned = 0; return -3; }
        return 0;
    }
    if (strcmp(k, "[") == 0) {
        size_t n = 0;
        if (cif_value_create(CIF_LIST_KIND, out) != CIF_OK) return -2;
        while (t->pos < t->n && strcmp(t->tok[t->pos], "]") != 0) {
            cif_value_tp *e; int eo, rc = parse_value_lit(t, &e, &eo);
            if (rc == 0) rc = (cif_value_insert_element_at(*out, n++, e) == CIF_OK) ? 0 : -4;
            if (eo && e) cif_value_free(e);
            if (rc) { cif_value_free(*out); *out = NULL; *owned = 0; return rc; }
        }
        t->pos++;
        return 0;
    }
    if (strcmp(k, "{") == 0) {
        if (cif_value_create(CIF_TABLE_KIND, out) != CIF_OK) return -2;
        while (t->pos < t->n && strcmp(t->tok[t->pos], "}") != 0) {
            UChar *key = tok_ustr(t->tok[t->pos++], NULL);
            cif_value_tp *e; int eo, rc = parse_value_lit(t, &e, &eo);
            if (rc == 0) rc = (cif_value_set_item_by_key(*out, key, e) == CIF_OK) ? 0 : -4;
            h_free(key);
            if (eo && e) cif_value_free(e);
            if (rc) { cif_value_free(*out); *out = NULL; *owned = 0; return rc; }
        }
        t->pos++;
        return 0;
    }
    *owned = 0;
    return -1;
}

/* the call under test: single allocation failures (C17) are counted and injected only while the gate is open */
#define API(e) ({ __typeof__(e) api_r_; wrap_gate(1); api_r_ = (e); wrap_gate(0); api_r_; })

/* ---------- parse support ---------- */
typedef struct {
    /* error policy */
    int reject_at;      /* 1-based index of the error invocation answered with reject_code; 0 = accept all */
    int reject_code;
    int nerr;
    /* handler program: response for the k-th (0-based) handler invocation */
    int nprog; int *prog_idx; int *prog_resp;
    int ncalls;
    int log_handlers, log_syntax, query, in_parse;
    struct scanner_s *scanner;   /* not available: the scanner lives on cif_parse_internal's stack */
    obuf log; obuf errs;
    int first;
    cif_loop_tp *cur_loop;  /* walking: the loop whose packets are being presented */
    int skip_loops;         /* parsing: every loop_start answers SKIP_CURRENT */
    int setcat, nloops;     /* parsing: loop_start assigns the category c<k> to the k-th loop (the use shown in misc/parser_callbacks.c) */
    int nest_at, nest_buf;  /* parsing: at handler callback #nest_at a complete, independent cif_parse of buffer nest_buf is made */
    long ws_total, ws_bad, ws_events; size_t doc_units;   /* syn=2: whitespace callbacks are validated and summed instead of logged */
    int stop_seen;      /* a handler has answered END or a positive code */
    int bad_after_stop; /* handler callbacks delivered after that */
} pctx;

static int err_cb(int code, size_t line, size_t column, const UChar *text, size_t length, void *data) {
    pctx *c = (pctx *) data;
    c->nerr += 1;
    if (c->errs.n < (1u << 20)) {
        ob_printf(&c->errs, "%s[%d,%lu,%lu,%lu,", c->nerr > 1 ? "," : "", code, (unsigned long) line, (unsigned long) column, (unsigned long) length);
        if (text && length <= 64) ob_jstr_n(&c->errs, text, (long) length);
        else if (text) {
            /* touch every unit so that the sanitizer sees the read */
            size_t i; unsigned acc = 0; for (i = 0; i < length; i++) acc += text[i];
            ob_printf(&c->errs, "\"<%lu units, sum %u>\"", (unsigned long) length, acc);
        } else ob_puts(&c->errs, "null");
        ob_putc(&c->errs, ']');
    } else if (text) { size_t i; volatile unsigned acc = 0; for (i = 0; i < length; i++) acc += text[i]; }
    if (c->reject_at && c->nerr == c->reject_at) return c->reject_code;
    return 0;
}

static void nested_parse(pctx *c);
static int respond(pctx *c) {
    int k = c->ncalls++, i;
    if (c->stop_seen) c->bad_after_stop += 1;
    if (c->in_parse && c->nest_buf >= 0 && k == c->nest_at) nested_parse(c);
    for (i = 0; i < c->nprog; i++) if (c->prog_idx[i] == k) {
        int r = c->prog_resp[i];
        if (r == CIF_TRAVERSE_END || r > 0) c->stop_seen = 1;
        return r;
    }
    return 0;
}
static void log_sep(pctx *c) { if (!c->first) ob_putc(&c->log, ','); c->first = 0; }

static void log_container(pctx *c, const char *ev, cif_container_tp *h) {
    log_sep(c);
    ob_printf(&c->log, "[\"%s\",", ev);
    if (!h) ob_puts(&c->log, "null");
    else {
        UChar *code = NULL; int rc = cif_container_get_code(h, &code);
        if (rc == CIF_OK) ob_jstr(&c->log, code); else ob_printf(&c->log, "\"<rc=%d>\"", rc);
        if (code) free(code);
    }
    ob_putc(&c->log, ']');
    /* walking a managed CIF: the handle must answer queries as what it is presented as (a block is a block, a frame is not) */
    if (h && !c->in_parse) {
        int rc = cif_container_assert_block(h), want_block = (ev[0] == 'b');
        if ((rc == CIF_OK) != want_block) ob_printf(&c->log, ",[\"bad-handle\",\"%s: cif_container_assert_block answers %d\"]", ev, rc);
    }
}
static int h_cif_start(cif_tp *cif, void *d) { pctx *c = d; if (c->log_handlers) { log_sep(c); ob_printf(&c->log, "[\"cif_start\",%d]", cif != NULL); } return respond(c); }
static int h_cif_end(cif_tp *cif, void *d) { pctx *c = d; if (c->log_handlers) { log_sep(c); ob_printf(&c->log, "[\"cif_end\",%d]", cif != NULL); } return respond(c); }
static int h_block_start(cif_container_tp *b, void *d) { pctx *c = d; if (c->log_handlers) log_container(c, "block_start", b); return respond(c); }
static int h_block_end(cif_container_tp *b, void *d) { pctx *c = d; if (c->log_handlers) log_container(c, "block_end", b); return respond(c); }
static int h_frame_start(cif_container_tp *b, void *d) { pctx *c = d; if (c->log_handlers) log_container(c, "frame_start", b); return respond(c); }
static int h_frame_end(cif_container_tp *b, void *d) { pctx *c = d; if (c->log_handlers) log_container(c, "frame_end", b); return respond(c); }
static void log_loop(pctx *c, const char *ev, cif_loop_tp *l) {
    log_sep(c);
    ob_printf(&c->log, "[\"%s\",", ev);
    if (!l) ob_puts(&c->log, "null,null");
    else {
        /* also for the provisional loop object the parser hands to loop_start: handlers are meant to query it (misc/parser_callbacks.c) */
        UChar **names = NULL; UChar *cat = NULL; int rc = cif_loop_get_names(l, &names), i;
        ob_putc(&c->log, '[');
        if (rc == CIF_OK) { for (i = 0; names[i]; i++) { if (i) ob_putc(&c->log, ','); ob_jstr(&c->log, names[i]); free(names[i]); } free(names); }
        else ob_printf(&c->log, "\"<rc=%d>\"", rc);
        ob_puts(&c->log, "],");
        rc = cif_loop_get_category(l, &cat);
        if (rc == CIF_OK) ob_jstr(&c->log, cat); else ob_printf(&c->log, "\"<rc=%d>\"", rc);
        if (cat) free(cat);
    }
    ob_putc(&c->log, ']');
}
/* walking: at loop_start and loop_end no iterator of the walker is open, so the handler may iterate over the loop itself */
static void probe_iterate(pctx *c, const char *ev, cif_loop_tp *l) {
    if (!c->in_parse && l && c->log_handlers) {
        cif_pktitr_tp *it = NULL; int rc = cif_loop_get_packets(l, &it);
        if (rc == CIF_OK) { rc = cif_pktitr_next_packet(it, NULL); (void) cif_pktitr_abort(it); if (rc == CIF_OK) return; }
        if (rc == CIF_EMPTY_LOOP) return;
        log_sep(c); ob_printf(&c->log, "[\"bad-query\",\"%s: iterating over the loop handed to the callback answers %d\"]", ev, rc);
    }
}
static int h_loop_start(cif_loop_tp *l, void *d) {
    pctx *c = d; c->cur_loop = c->in_parse ? NULL : l;
    if (c->in_parse && c->setcat && l) {
        /* setcat=1: every loop, setcat=2: the first loop only.  The answer is not judged: for the provisional loop of a storing
         * parse the library applies the category and answers CIF_INVALID_HANDLE (no stored loop has that number yet) */
        UChar cat[16]; char b[16]; int i, k = c->nloops++; snprintf(b, sizeof b, "c%d", k);
        for (i = 0; b[i]; i++) cat[i] = (UChar) b[i]; cat[i] = 0;
        if (c->setcat == 1 || k == 0) (void) cif_loop_set_category(l, cat);
    }
    if (c->log_handlers) log_loop(c, "loop_start", l);
    probe_iterate(c, "loop_start", l);
    if (c->in_parse && c->skip_loops) { (void) respond(c); return CIF_TRAVERSE_SKIP_CURRENT; }
    return respond(c);
}
static int h_loop_end(cif_loop_tp *l, void *d) { pctx *c = d; c->cur_loop = NULL; if (c->log_handlers) log_loop(c, "loop_end", l); probe_iterate(c, "loop_end", l); return respond(c); }
/* while its packets are presented the loop handle received in loop_start is still valid for queries */
static void query_cur_loop(pctx *c, const char *ev) {
    if (c->cur_loop && c->log_handlers) {
        UChar **names = NULL; int rc = cif_loop_get_names(c->cur_loop, &names), i;
        if (rc == CIF_OK) { for (i = 0; names[i]; i++) free(names[i]); free(names); }
        else { log_sep(c); ob_printf(&c->log, "[\"bad-query\",\"%s: cif_loop_get_names on the loop being walked answers %d\"]", ev, rc); }
    }
}
static void log_packet(pctx *c, const char *ev, cif_packet_tp *p) {
    log_sep(c); ob_printf(&c->log, "[\"%s\",", ev); dump_packet(&c->log, p); ob_putc(&c->log, ']');
}
static int h_packet_start(cif_packet_tp *p, void *d) { pctx *c = d; if (c->log_handlers) log_packet(c, "packet_start", p); query_cur_loop(c, "packet_start"); return respond(c); }
static int h_packet_end(cif_packet_tp *p, void *d) { pctx *c = d; if (c->log_handlers) log_packet(c, "packet_end", p); query_cur_loop(c, "packet_end"); return respond(c); }
static int h_item(UChar *name, cif_value_tp *v, void *d) {
    pctx *c = d;
    if (c->log_handlers) { log_sep(c); ob_puts(&c->log, "[\"item\","); ob_jstr(&c->log, name); ob_putc(&c->log, ','); dump_value(&c->log, v); ob_putc(&c->log, ']'); }
    query_cur_loop(c, "item");
    return respond(c);
}
static void syn(pctx *c, const char *ev, size_t line, size_t col, const UChar *tok, size_t len) {
    if (!c->log_syntax) return;
    log_sep(c);
    ob_printf(&c->log, "[\"%s\",%lu,%lu,", ev, (unsigned long) line, (unsigned long) col);
    ob_jstr_n(&c->log, tok, (long) len);
    ob_putc(&c->log, ']');
}
static void s_ws(size_t line, size_t col, const UChar *tok, size_t len, void *d) {
    pctx *c = d;
    if (c->log_syntax == 2) {
        /* every unit reported must be a blank, a line terminator or part of a comment; the run cannot be longer than the input */
        size_t i; int in_comment = 0;
        c->ws_events++;
        if (len > c->doc_units) { c->ws_bad++; return; }
        for (i = 0; i < len; i++) {
            UChar u = tok[i];
            if (u == '\n' || u == '\r') in_comment = 0;
            else if (u == '#') in_comment = 1;
            else if (!in_comment && u != ' ' && u != '\t') { c->ws_bad++; return; }
        }
        c->ws_total += (long) len;
        return;
    }
    syn(c, "ws", line, col, tok, len);
}
static void s_kw(size_t line, size_t col, const UChar *tok, size_t len, void *d) { syn((pctx *) d, "kw", line, col, tok, len); }
static void s_dn(size_t line, size_t col, const UChar *tok, size_t len, void *d) { syn((pctx *) d, "dn", line, col, tok, len); }

static cif_handler_tp HANDLER = { h_cif_start, h_cif_end, h_block_start, h_block_end, h_frame_start, h_frame_end,
    h_loop_start, h_loop_end, h_packet_start, h_packet_end, h_item };

static void parse_prog(const char *spec, pctx *c) {
    /* "k:r,k:r" */
    int n = 1; const char *p;
    if (!spec || !*spec) return;
    for (p = spec; *p; p++) if (*p == ',') n++;
    c->prog_idx = (int *) h_malloc(n * sizeof(int)); c->prog_resp = (int *) h_malloc(n * sizeof(int));
    c->nprog = 0;
    p = spec;
    while (*p) {
        char *e; long k = strtol(p, &e, 10), r = 0;
        if (*e == ':') r = strtol(e + 1, &e, 10);
        c->prog_idx[c->nprog] = (int) k; c->prog_resp[c->nprog] = (int) r; c->nprog++;
        p = (*e == ',') ? e + 1 : e;
        if (e == p && *p) break;
    }
}

static const char *kv(toks *t, const char *key) {
    int i; size_t l = strlen(key);
    for (i = 1; i < t->n; i++) if (strncmp(t->tok[i], key, l) == 0 && t->tok[i][l] == '=') return t->tok[i] + l + 1;
    return NULL;
}

/* parse <Cdst|new:C<n>|-> B<n> [k=v ...]
 * options: p2= (prefer_cif2) fold= prefix= depth= ws= eol= (hex bytes) enc= force= eh=accept|die|null|ignore|reject
 *          rej=<k>:<code>  opts=null (pass NULL options)  h=1 (handlers) syn=1 (syntax callbacks) prog=k:r,...  */
/* a complete, independent parse made from inside a handler callback of another parse (its result is discarded) */
static int nested_err(int code, size_t line, size_t col, const UChar *text, size_t len, void *d) { (void) code; (void) line; (void) col; (void) text; (void) len; (void) d; return 0; }
static void nested_parse(pctx *c) {
    struct cif_parse_opts_s *o = NULL; cif_tp *inner = NULL; FILE *f; int rc;
    if (c->nest_buf < 0 || cif_parse_options_create(&o) != CIF_OK) return;
    o->error_callback = nested_err;
    f = fmemopen(BUF[c->nest_buf].n ? (void *) BUF[c->nest_buf].p : (void *) "", BUF[c->nest_buf].n, "rb");
    if (f) {
        rc = cif_parse(f, o, &inner);
        fclose(f);
        if (rc != CIF_OK) { log_sep(c); ob_printf(&c->log, "[\"bad-query\",\"the nested cif_parse answers %d\"]", rc); }
        if (inner) cif_destroy(inner);
    }
    free(o);
}

static void cmd_parse(toks *t) {
    pctx c; struct cif_parse_opts_s *o = NULL; cif_tp *cif = NULL, **target = NULL; int ci = -1, bi, rc, isnew = 0;
    const char *v; FILE *f; char *ws = NULL, *eol = NULL; unsigned char *tmp;
    memset(&c, 0, sizeof c); c.first = 1; c.in_parse = 1;
    if (t->n < 3) { ob_puts(&OUT, "ERR usage"); return; }
    if (strncmp(t->tok[1], "new:", 4) == 0) { ci = slot(t->tok[1] + 4, 'C', NCIF); isnew = 1; target = &cif; }
    else if (strcmp(t->tok[1], "-") != 0) { ci = slot(t->tok[1], 'C', NCIF); if (ci < 0 || !CIFS[ci]) { ob_puts(&OUT, "ERR cif slot"); return; } cif = CIFS[ci]; target = &cif; }
    bi = slot(t->tok[2], 'B', NBUF);
    if (bi < 0) { ob_puts(&OUT, "ERR buf slot"); return; }
    if (cif_parse_options_create(&o) != CIF_OK) { ob_puts(&OUT, "ERR options"); return; }
    if ((v = kv(t, "p2"))) o->prefer_cif2 = atoi(v);
    if ((v = kv(t, "fold"))) o->line_folding_modifier = atoi(v);
    if ((v = kv(t, "prefix"))) o->text_prefixing_modifier = atoi(v);
    if ((v = kv(t, "depth"))) o->max_frame_depth = atoi(v);
    if ((v = kv(t, "force"))) o->force_default_encoding = atoi(v);
    if ((v = kv(t, "enc"))) o->default_encoding_name = v;
    if ((v = kv(t, "ws"))) { size_t n = hex_to_bytes(v, &tmp); tmp[n] = 0; ws = (char *) tmp; o->extra_ws_chars = ws; }
    if ((v = kv(t, "eol"))) { size_t n = hex_to_bytes(v, &tmp); tmp[n] = 0; eol = (char *) tmp; o->extra_eol_chars = eol; }
    v = kv(t, "eh");
    if (!v || strcmp(v, "accept") == 0) o->error_callback = err_cb;
    else if (strcmp(v, "die") == 0) o->error_callback = cif_parse_error_die;
    else if (strcmp(v, "ignore") == 0) o->error_callback = cif_parse_error_ignore;
    else if (strcmp(v, "null") == 0) o->error_callback = NULL;
    else o->error_callback = err_cb;
    if ((v = kv(t, "rej"))) { c.reject_at = atoi(v); v = strchr(v, ':'); c.reject_code = v ? atoi(v + 1) : CIF_CLIENT_ERROR; }
    if ((v = kv(t, "h")) && atoi(v)) { o->handler = &HANDLER; c.log_handlers = atoi(v) > 0 ? 1 : 0; if (atoi(v) == 2) c.log_handlers = 0; }
    if ((v = kv(t, "syn")) && atoi(v)) { o->whitespace_callback = s_ws; o->keyword_callback = s_kw; o->dataname_callback = s_dn; c.log_syntax = atoi(v); c.doc_units = BUF[bi].n; }
    if ((v = kv(t, "setcat"))) c.setcat = atoi(v);
    if ((v = kv(t, "skiploops"))) { c.skip_loops = atoi(v); if (!o->handler) o->handler = &HANDLER; }
    c.nest_buf = -1;
    if ((v = kv(t, "nest"))) { const char *q = strchr(v, ':'); c.nest_at = atoi(v); c.nest_buf = q ? slot(q + 1, 'B', NBUF) : -1; if (!o->handler) o->handler = &HANDLER; }
    parse_prog(kv(t, "prog"), &c);
    o->user_data = &c;
    f = fmemopen(BUF[bi].n ? (void *) BUF[bi].p : (void *) "", BUF[bi].n, "rb");
    if (!f) { ob_puts(&OUT, "ERR fmemopen"); free(o); return; }
    v = kv(t, "opts");
    rc = API(cif_parse(f, (v && strcmp(v, "null") == 0) ? NULL : o, target));
    fclose(f);
    if (isnew && ci >= 0) { if (CIFS[ci]) cif_destroy(CIFS[ci]); CIFS[ci] = cif; }
    else if (isnew && cif) cif_destroy(cif);
    ob_printf(&OUT, "{\"rc\":%d,\"nerr\":%d,\"errs\":[%s],\"ncalls\":%d,\"after_stop\":%d,", rc, c.nerr, c.errs.s ? c.errs.s : "", c.ncalls, c.bad_after_stop);
    if (c.log_syntax == 2) ob_printf(&OUT, "\"ws_events\":%ld,\"ws_total\":%ld,\"ws_bad\":%ld,", c.ws_events, c.ws_total, c.ws_bad);
    ob_printf(&OUT, "\"log\":[%s]}", c.log.s ? c.log.s : "");
    free(o); h_free(ws); h_free(eol); h_free(c.prog_idx); h_free(c.prog_resp); h_free(c.log.s); h_free(c.errs.s);
}

/* ---------- C03: the error-callback contract, evaluated in-process for one input and one option set ----------
 * contract B<n> target=none|new|C<k> [option k=v as for parse] : runs the all-accepting parse, then every single-rejection
 * policy, the built-in abort handler and a NULL callback, and checks the invariants of the contract. */
typedef struct { int nerr; int codes[64]; int reject_at, reject_mode, reject_code; int bad_line; int after_reject; } cctx;
static int contract_cb(int code, size_t line, size_t column, const UChar *text, size_t length, void *data) {
    cctx *c = (cctx *) data; (void) column;
    if (c->reject_at && c->nerr >= c->reject_at) c->after_reject += 1;
    if (c->nerr < 64) c->codes[c->nerr] = code;
    c->nerr += 1;
    if (line < 1) c->bad_line += 1;
    if (text) { size_t i; volatile unsigned acc = 0; for (i = 0; i < length; i++) acc += text[i]; (void) acc; }
    if (c->reject_at && c->nerr == c->reject_at) {
        c->reject_code = (c->reject_mode == 0) ? CIF_CLIENT_ERROR : (c->reject_mode == 1) ? code : -1;
        return c->reject_code;
    }
    return 0;
}
static int defined_code(int rc) {
    static const int codes[] = { 0, 1, 2, 3, 4, 5, 6, 7, 8, 9, 10, 11, 12, 13, 21, 22, 23, 31, 32, 33, 34, 35, 36, 37, 41, 42, 43, 44, 52, 53, 62, 72, 73, 74,
        102, 103, 104, 105, 106, 107, 108, 109, 110, 113, 122, 123, 124, 126, 132, 133, 134, 135, 136, 137, 138, 139, 140 };
    size_t i; for (i = 0; i < sizeof codes / sizeof codes[0]; i++) if (codes[i] == rc) return 1; return 0;
}
static int q_cif(cif_tp *c, void *d) { (void) c; (void) d; return 0; }
static int q_cont(cif_container_tp *c, void *d) { (void) c; (void) d; return 0; }
static int q_loop(cif_loop_tp *c, void *d) { (void) c; (void) d; return 0; }
static int q_pkt(cif_packet_tp *c, void *d) { (void) c; (void) d; return 0; }
static int q_item(UChar *n, cif_value_tp *v, void *d) { (void) n; (void) d; if (v) (void) cif_value_kind(v); return 0; }
static cif_handler_tp QUIET_HANDLER = { q_cif, q_cif, q_cont, q_cont, q_cont, q_cont, q_loop, q_loop, q_pkt, q_pkt, q_item };
static void contract_opts(toks *t, struct cif_parse_opts_s *o, char **ws, char **eol) {
    const char *v; unsigned char *tmp;
    if ((v = kv(t, "p2"))) o->prefer_cif2 = atoi(v);
    if ((v = kv(t, "fold"))) o->line_folding_modifier = atoi(v);
    if ((v = kv(t, "prefix"))) o->text_prefixing_modifier = atoi(v);
    if ((v = kv(t, "depth"))) o->max_frame_depth = atoi(v);
    if ((v = kv(t, "force"))) o->force_default_encoding = atoi(v);
    if ((v = kv(t, "enc"))) o->default_encoding_name = v;
    if ((v = kv(t, "ws"))) { size_t n = hex_to_bytes(v, &tmp); tmp[n] = 0; *ws = (char *) tmp; o->extra_ws_chars = *ws; }
    if ((v = kv(t, "eol"))) { size_t n = hex_to_bytes(v, &tmp); tmp[n] = 0; *eol = (char *) tmp; o->extra_eol_chars = *eol; }
    if ((v = kv(t, "h")) && atoi(v)) o->handler = &QUIET_HANDLER;
}
static int contract_run(bytebuf *b, struct cif_parse_opts_s *o, int use_opts, int mode, cif_tp **keep, obuf *prob, const char *what) {
    /* mode 0: syntax only; 1: new CIF (destroyed or handed back through keep); 2: into *keep (existing) */
    FILE *f = fmemopen(b->n ? (void *) b->p : (void *) "", b->n, "rb"); cif_tp *cif = NULL; int rc;
    if (!f) return -1000;
    if (mode == 2) cif = *keep;
    rc = cif_parse(f, use_opts ? o : NULL, mode == 0 ? NULL : &cif);
    fclose(f);
    if (mode == 1) { if (keep) *keep = cif; else if (cif) { int d = cif_destroy(cif); if (d != CIF_OK) ob_printf(prob, "\"%s: cif_destroy after the parse returned %d\",", what, d); } }
    return rc;
}
static void post_conditions(cif_tp *cif, obuf *prob, const char *what) {
    /* the target must be walkable, writable, modifiable and destroyable */
    pctx w; char *mem = NULL; size_t memn = 0; FILE *f; cif_block_tp *b = NULL; int rc; static const UChar code[] = { 'z', 'z', 'p', 'o', 's', 't', 0 };
    obuf scratch = {0, 0, 0};
    memset(&w, 0, sizeof w); w.first = 1;
    (void) cif_walk(cif, &HANDLER, &w);
    if (sqlite3_get_autocommit(cif->db) != 1) ob_printf(prob, "\"%s: a transaction is left open after walking the target\",", what);
    f = open_memstream(&mem, &memn); (void) cif_write(f, NULL, cif); fclose(f); h_free(mem);
    rc = cif_create_block(cif, code, &b);
    if (rc == CIF_OK) { if ((rc = cif_container_destroy(b)) != CIF_OK) ob_printf(prob, "\"%s: destroying a new block of the target returned %d\",", what, rc); }
    else if (rc != CIF_DUP_BLOCKCODE) ob_printf(prob, "\"%s: cif_create_block on the target returned %d\",", what, rc);
    (void) dump_cif(&scratch, cif); h_free(scratch.s);
    h_free(w.log.s);
}
static void cleanup_target(cif_tp *cif) {
    /* remove what a parse added: every block whose code does not start with "pre" */
    cif_block_tp **bs = NULL; int i;
    if (cif_get_all_blocks(cif, &bs) != CIF_OK) return;
    for (i = 0; bs[i]; i++) { UChar *cd = NULL; int keepit = 0;
        if (cif_container_get_code(bs[i], &cd) == CIF_OK && cd) { keepit = (cd[0] == 'p' && cd[1] == 'r' && cd[2] == 'e'); free(cd); }
        if (keepit) cif_container_free(bs[i]); else (void) cif_container_destroy(bs[i]); }
    free(bs);
}
static void cmd_contract(toks *t) {
    struct cif_parse_opts_s *o = NULL; char *ws = NULL, *eol = NULL; cctx c; int bi, rc0, k, mode = 0, tci = -1, n; long live0 = wrap_live();
    const char *tg = kv(t, "target"); obuf prob = {0, 0, 0}; int default_opts;
    if (t->n < 2 || (bi = slot(t->tok[1], 'B', NBUF)) < 0) { ob_puts(&OUT, "ERR usage"); return; }
    if (tg && strcmp(tg, "new") == 0) mode = 1; else if (tg && tg[0] == 'C') { mode = 2; tci = slot(tg, 'C', NCIF); if (tci < 0 || !CIFS[tci]) { ob_puts(&OUT, "ERR target"); return; } }
    if (cif_parse_options_create(&o) != CIF_OK) { ob_puts(&OUT, "ERR options"); return; }
    contract_opts(t, o, &ws, &eol);
    default_opts = (t->n == 2 || (t->n == 3 && tg));
    o->user_data = &c; o->error_callback = contract_cb;
    /* 1. all-accepting run */
    memset(&c, 0, sizeof c);
    if (mode == 2) { rc0 = contract_run(&BUF[bi], o, 1, 2, &CIFS[tci], &prob, "accept-all"); post_conditions(CIFS[tci], &prob, "accept-all"); cleanup_target(CIFS[tci]); }
    else if (mode == 1) { cif_tp *nc = NULL; rc0 = contract_run(&BUF[bi], o, 1, 1, &nc, &prob, "accept-all"); if (nc) { int d; post_conditions(nc, &prob, "accept-all"); d = cif_destroy(nc); if (d != CIF_OK) ob_printf(&prob, "\"cif_destroy of the new target returned %d\",", d); } }
    else rc0 = contract_run(&BUF[bi], o, 1, 0, NULL, &prob, "accept-all");
    n = c.nerr;
    if (c.bad_line) ob_printf(&prob, "\"%d error callback(s) carried a line number below 1\",", c.bad_line);
    if (!(rc0 == CIF_OK || (rc0 > 0 && defined_code(rc0)))) ob_printf(&prob, "\"accept-all parse returned %d, which is not a defined result code\",", rc0);
    if (rc0 != CIF_OK && n == 0 && !kv(t, "invalidopts")) ob_printf(&prob, "\"the parse failed with %d without having reported any error to the callback\",", rc0);
    ob_printf(&OUT, "{\"n\":%d,\"rc0\":%d,\"codes\":[", n, rc0);
    for (k = 0; k < n && k < 64; k++) ob_printf(&OUT, "%s%d", k ? "," : "", c.codes[k]);
    ob_puts(&OUT, "],");
    /* 2. every single rejection */
    { int first_code = n ? c.codes[0] : 0, kmax = n < 10 ? n : 10, m;
      for (k = 1; k <= kmax; k++) for (m = 0; m < 3; m++) {
          cctx r; int rc, expect_code = (k <= 64) ? c.codes[k - 1] : 0;
          memset(&r, 0, sizeof r); r.reject_at = k; r.reject_mode = m; o->user_data = &r;
          rc = contract_run(&BUF[bi], o, 1, mode, mode == 2 ? &CIFS[tci] : NULL, &prob, "rejecting");
          if (mode == 2) cleanup_target(CIFS[tci]);
          if (r.nerr != k || r.after_reject) ob_printf(&prob, "\"%s error #%d: %d callback(s) were made in total (%d after the rejection)\",", m == 2 ? "negative answer (-1) to" : "rejecting", k, r.nerr, r.after_reject);
          if (r.nerr >= k && k <= 64 && r.codes[k - 1] != expect_code) ob_printf(&prob, "\"error #%d is code %d in one run and %d in another\",", k, expect_code, r.codes[k - 1]);
          if (m == 0 && rc != CIF_CLIENT_ERROR) ob_printf(&prob, "\"callback returned CIF_CLIENT_ERROR at error #%d but cif_parse returned %d\",", k, rc);
          if (m == 1 && rc != expect_code) ob_printf(&prob, "\"callback returned the reported code %d at error #%d but cif_parse returned %d\",", expect_code, k, rc);
          if (m == 2 && !(rc == CIF_OK || rc == -1 || (rc > 0 && defined_code(rc)))) ob_printf(&prob, "\"callback returned -1 at error #%d and cif_parse returned %d\",", k, rc);
      }
      /* 3. the built-in abort handler, and no handler at all */
      { int rc; o->error_callback = cif_parse_error_die; o->user_data = NULL;
        rc = contract_run(&BUF[bi], o, 1, mode, mode == 2 ? &CIFS[tci] : NULL, &prob, "die"); if (mode == 2) cleanup_target(CIFS[tci]);
        if (rc != (n ? first_code : rc0)) ob_printf(&prob, "\"with cif_parse_error_die cif_parse returned %d; the first code of the all-accepting parse is %d (rc %d)\",", rc, first_code, rc0);
        o->error_callback = NULL;
        rc = contract_run(&BUF[bi], o, 1, mode, mode == 2 ? &CIFS[tci] : NULL, &prob, "null-callback"); if (mode == 2) cleanup_target(CIFS[tci]);
        if (rc != (n ? first_code : rc0)) ob_printf(&prob, "\"with a NULL error callback cif_parse returned %d; expected %d\",", rc, n ? first_code : rc0);
        if (default_opts) { rc = contract_run(&BUF[bi], o, 0, mode, mode == 2 ? &CIFS[tci] : NULL, &prob, "null-options"); if (mode == 2) cleanup_target(CIFS[tci]);
            if (rc != (n ? first_code : rc0)) ob_printf(&prob, "\"with NULL options cif_parse returned %d; expected %d\",", rc, n ? first_code : rc0); }
        o->error_callback = cif_parse_error_ignore;
        rc = contract_run(&BUF[bi], o, 1, mode, mode == 2 ? &CIFS[tci] : NULL, &prob, "ignore"); if (mode == 2) cleanup_target(CIFS[tci]);
        if (rc != rc0) ob_printf(&prob, "\"with cif_parse_error_ignore cif_parse returned %d; the all-accepting parse returned %d\",", rc, rc0);
      } }
    free(o); h_free(ws); h_free(eol);
    if (wrap_available() && mode != 2 && wrap_live() != live0) ob_printf(&prob, "\"%ld allocation(s) made during the parses were not released\",", wrap_live() - live0);
    if (prob.n && prob.s[prob.n - 1] == ',') prob.s[--prob.n] = 0;
    ob_printf(&OUT, "\"problems\":[%s]}", prob.s ? prob.s : "");
    h_free(prob.s);
}

/* walk C<n> [prog=...] [null=<mask of NULL handler members>] */
static void cmd_walk(toks *t) {
    pctx c; int ci = slot(t->tok[1], 'C', NCIF), rc; cif_handler_tp h = HANDLER; const char *v;
    memset(&c, 0, sizeof c); c.first = 1; c.log_handlers = 1;
    if (ci < 0 || !CIFS[ci]) { ob_puts(&OUT, "ERR cif slot"); return; }
    if ((v = kv(t, "log"))) c.log_handlers = atoi(v);
    parse_prog(kv(t, "prog"), &c);
    if ((v = kv(t, "null"))) {
        int m = atoi(v);
        if (m & 1) h.handle_cif_start = NULL; if (m & 2) h.handle_cif_end = NULL;
        if (m & 4) h.handle_block_start = NULL; if (m & 8) h.handle_block_end = NULL;
        if (m & 16) h.handle_frame_start = NULL; if (m & 32) h.handle_frame_end = NULL;
        if (m & 64) h.handle_loop_start = NULL; if (m & 128) h.handle_loop_end = NULL;
        if (m & 256) h.handle_packet_start = NULL; if (m & 512) h.handle_packet_end = NULL;
        if (m & 1024) h.handle_item = NULL;
    }
    rc = API(cif_walk(CIFS[ci], &h, &c));
    ob_printf(&OUT, "{\"rc\":%d,\"ncalls\":%d,\"after_stop\":%d,\"autocommit\":%d,\"log\":[%s]}", rc, c.ncalls, c.bad_after_stop,
              sqlite3_get_autocommit(CIFS[ci]->db), c.log.s ? c.log.s : "");
    h_free(c.prog_idx); h_free(c.prog_resp); h_free(c.log.s);
}

/* write C<n> B<n> [v=1|2|0] [opts=null] */
static void cmd_write(toks *t) {
    int ci = slot(t->tok[1], 'C', NCIF), bi = slot(t->tok[2], 'B', NBUF), rc; const char *v;
    struct cif_write_opts_s *o = NULL; char *mem = NULL; size_t memn = 0; FILE *f;
    if (ci < 0 || !CIFS[ci] || bi < 0) { ob_puts(&OUT, "ERR slot"); return; }
    if (cif_write_options_create(&o) != CIF_OK) { ob_puts(&OUT, "ERR options"); return; }
    if ((v = kv(t, "v"))) o->cif_version = atoi(v);
    f = open_memstream(&mem, &memn);
    v = kv(t, "opts");
    rc = API(cif_write(f, (v && strcmp(v, "null") == 0) ? NULL : o, CIFS[ci]));
    fclose(f);
    BUF[bi].n = 0; bb_append(&BUF[bi], (unsigned char *) mem, memn);
    h_free(mem); free(o);
    ob_printf(&OUT, "{\"rc\":%d,\"n\":%lu}", rc, (unsigned long) memn);
}

static void put_rc(int rc) { ob_printf(&OUT, "{\"rc\":%d}", rc); }

static UChar **read_names(toks *t, int *pos, int *count) {
    int n = atoi(t->tok[(*pos)++]), i; UChar **names;
    if (n < 0) { *count = -1; return NULL; }
    names = (UChar **) h_malloc((n + 1) * sizeof(UChar *));
    for (i = 0; i < n; i++) names[i] = tok_ustr(t->tok[(*pos)++], NULL);
    names[n] = NULL; *count = n;
    return names;
}
static void free_names(UChar **names) { int i; if (!names) return; for (i = 0; names[i]; i++) h_free(names[i]); h_free(names); }

static void reset_all(void) {
    int i;
    for (i = 0; i < NITR; i++) if (ITR[i]) { (void) cif_pktitr_abort(ITR[i]); ITR[i] = NULL; }
    for (i = 0; i < NLOOP; i++) if (LOOPS[i]) { cif_loop_free(LOOPS[i]); LOOPS[i] = NULL; }
    for (i = 0; i < NCONT; i++) if (CONT[i]) { cif_container_free(CONT[i]); CONT[i] = NULL; }
    for (i = 0; i < NPKT; i++) if (PKT[i]) { cif_packet_free(PKT[i]); PKT[i] = NULL; }
    for (i = 0; i < NVAL; i++) if (VAL[i]) { cif_value_free(VAL[i]); VAL[i] = NULL; }
    for (i = 0; i < NREF; i++) REF[i] = NULL;
    for (i = 0; i < NCIF; i++) if (CIFS[i]) { (void) cif_destroy(CIFS[i]); CIFS[i] = NULL; }
    for (i = 0; i < NBUF; i++) BUF[i].n = 0;
}

#define NEED(n_) if (t->n < (n_)) { ob_puts(&OUT, "ERR args"); return; }
#define GETSLOT(var, tokidx, pfx, max, arr, must) int var = slot(t->tok[tokidx], pfx, max); \
    if (var < 0 || ((must) && !arr[var])) { ob_printf(&OUT, "ERR slot %s", t->tok[tokidx]); return; }

/* loop handles keep a pointer to the container handle they were obtained through: release them before it goes away */
static void drop_dependents(int hi) {
    int i, j;
    for (i = 0; i < NLOOP; i++) if (LOOPS[i] && LOOP_PARENT[i] == hi) {
        for (j = 0; j < NITR; j++) if (ITR[j] && ITR[j]->loop == LOOPS[i]) { (void) cif_pktitr_abort(ITR[j]); ITR[j] = NULL; }
        cif_loop_free(LOOPS[i]); LOOPS[i] = NULL;
    }
}
static void store_cont(int hi, cif_container_tp *h) { if (hi >= 0) { if (CONT[hi]) { drop_dependents(hi); cif_container_free(CONT[hi]); } CONT[hi] = h; } }
static void store_loop2(int li, cif_loop_tp *l, int parent) {
    if (li >= 0) {
        if (LOOPS[li]) { int j; for (j = 0; j < NITR; j++) if (ITR[j] && ITR[j]->loop == LOOPS[li]) { (void) cif_pktitr_abort(ITR[j]); ITR[j] = NULL; }
            cif_loop_free(LOOPS[li]); }
        LOOPS[li] = l; LOOP_PARENT[li] = parent;
    }
}
#define store_loop(li, l) store_loop2(li, l, hi)

static void exec_cmd(toks *t) {
    const char *c = t->tok[0];
    if (strcmp(c, "reset") == 0) { reset_all(); ob_printf(&OUT, "{\"rc\":0,\"live\":%ld}", wrap_live()); return; }
    if (strcmp(c, "cif.new") == 0) { NEED(2); GETSLOT(ci, 1, 'C', NCIF, CIFS, 0);
        if (CIFS[ci]) { cif_destroy(CIFS[ci]); CIFS[ci] = NULL; } put_rc(API(cif_create(&CIFS[ci]))); return; }
    if (strcmp(c, "cif.destroy") == 0) { NEED(2); GETSLOT(ci, 1, 'C', NCIF, CIFS, 1);
        { int rc = API(cif_destroy(CIFS[ci])); CIFS[ci] = NULL; put_rc(rc); } return; }
    if (strcmp(c, "blk.create") == 0 || strcmp(c, "blk.get") == 0) { NEED(4); GETSLOT(ci, 1, 'C', NCIF, CIFS, 1);
        { int isnull, hi = slot(t->tok[3], 'H', NCONT), rc; UChar *code = tok_ustr(t->tok[2], &isnull); cif_container_tp *h = NULL;
          rc = API((c[4] == 'c') ? cif_create_block(CIFS[ci], code, hi >= 0 ? &h : NULL) : cif_get_block(CIFS[ci], code, hi >= 0 ? &h : NULL));
          if (hi >= 0 && (rc == CIF_OK || h)) store_cont(hi, h);
          h_free(code); put_rc(rc); } return; }
    if (strcmp(c, "blk.all") == 0) { NEED(2); GETSLOT(ci, 1, 'C', NCIF, CIFS, 1);
        { cif_block_tp **bs = NULL; int rc = API(cif_get_all_blocks(CIFS[ci], &bs)), i;
          ob_printf(&OUT, "{\"rc\":%d,\"codes\":[", rc);
          if (rc == CIF_OK) { for (i = 0; bs[i]; i++) { UChar *code = NULL; if (i) ob_putc(&OUT, ',');
                if (cif_container_get_code(bs[i], &code) == CIF_OK) ob_jstr(&OUT, code); else ob_puts(&OUT, "null");
                if (code) free(code); cif_container_free(bs[i]); } free(bs); }
          ob_puts(&OUT, "]}"); } return; }
    if (strcmp(c, "frm.create") == 0 || strcmp(c, "frm.get") == 0) { NEED(4); GETSLOT(pi, 1, 'H', NCONT, CONT, 1);
        { int isnull, hi = slot(t->tok[3], 'H', NCONT), rc; UChar *code = tok_ustr(t->tok[2], &isnull); cif_container_tp *h = NULL;
          rc = API((c[4] == 'c') ? cif_container_create_frame(CONT[pi], code, hi >= 0 ? &h : NULL) : cif_container_get_frame(CONT[pi], code, hi >= 0 ? &h : NULL));
          if (hi >= 0 && (rc == CIF_OK || h)) store_cont(hi, h);
          h_free(code); put_rc(rc); } return; }
    if (strcmp(c, "frm.all") == 0) { NEED(2); GETSLOT(pi, 1, 'H', NCONT, CONT, 1);
        { cif_container_tp **bs = NULL; int rc = API(cif_container_get_all_frames(CONT[pi], &bs)), i;
          ob_printf(&OUT, "{\"rc\":%d,\"codes\":[", rc);
          if (rc == CIF_OK) { for (i = 0; bs[i]; i++) { UChar *code = NULL; if (i) ob_putc(&OUT, ',');
                if (cif_container_get_code(bs[i], &code) == CIF_OK) ob_jstr(&OUT, code); else ob_puts(&OUT, "null");
                if (code) free(code); cif_container_free(bs[i]); } free(bs); }
          ob_puts(&OUT, "]}"); } return; }
    if (strcmp(c, "cont.code") == 0) { NEED(2); GETSLOT(hi, 1, 'H', NCONT, CONT, 1);
        { UChar *code = NULL; int rc = API(cif_container_get_code(CONT[hi], &code)); ob_printf(&OUT, "{\"rc\":%d,\"code\":", rc); ob_jstr(&OUT, code); ob_putc(&OUT, '}'); if (code) free(code); } return; }
    if (strcmp(c, "cont.isblock") == 0) { NEED(2); GETSLOT(hi, 1, 'H', NCONT, CONT, 1); put_rc(API(cif_container_assert_block(CONT[hi]))); return; }
    if (strcmp(c, "cont.destroy") == 0) { NEED(2); GETSLOT(hi, 1, 'H', NCONT, CONT, 1);
        { int rc; drop_dependents(hi); rc = API(cif_container_destroy(CONT[hi])); if (rc == CIF_OK || rc == CIF_INVALID_HANDLE) CONT[hi] = NULL; /* the handle is released in both cases */ put_rc(rc); } return; }
    if (strcmp(c, "cont.free") == 0) { NEED(2); GETSLOT(hi, 1, 'H', NCONT, CONT, 1); drop_dependents(hi); cif_container_free(CONT[hi]); CONT[hi] = NULL; put_rc(0); return; }
    if (strcmp(c, "cont.prune") == 0) { NEED(2); GETSLOT(hi, 1, 'H', NCONT, CONT, 1); put_rc(API(cif_container_prune(CONT[hi]))); return; }
    if (strcmp(c, "cont.dump") == 0) { NEED(2); GETSLOT(hi, 1, 'H', NCONT, CONT, 1); dump_container(&OUT, CONT[hi]); return; }
    if (strcmp(c, "loop.create") == 0) { /* loop.create H cat n names... L|- ; n=-1 passes names=NULL */
        NEED(5); GETSLOT(hi, 1, 'H', NCONT, CONT, 1);
        { int isnull, pos = 3, cnt, li, rc; UChar *cat = tok_ustr(t->tok[2], &isnull); UChar **names = read_names(t, &pos, &cnt); cif_loop_tp *l = NULL;
          li = slot(t->tok[pos], 'L', NLOOP);
          rc = API(cif_container_create_loop(CONT[hi], cat, names, li >= 0 ? &l : NULL));
          if (li >= 0 && (rc == CIF_OK || l)) store_loop(li, l);
          free_names(names); h_free(cat); put_rc(rc); } return; }
    if (strcmp(c, "loop.getcat") == 0 || strcmp(c, "loop.getitem") == 0) { NEED(4); GETSLOT(hi, 1, 'H', NCONT, CONT, 1);
        { int isnull, li = slot(t->tok[3], 'L', NLOOP), rc; UChar *s = tok_ustr(t->tok[2], &isnull); cif_loop_tp *l = NULL;
          rc = API((c[8] == 'c') ? cif_container_get_category_loop(CONT[hi], s, li >= 0 ? &l : NULL) : cif_container_get_item_loop(CONT[hi], s, li >= 0 ? &l : NULL));
          if (li >= 0 && (rc == CIF_OK || l)) store_loop(li, l);
          h_free(s); put_rc(rc); } return; }
    if (strcmp(c, "loop.all") == 0) { NEED(2); GETSLOT(hi, 1, 'H', NCONT, CONT, 1);
        { cif_loop_tp **ls = NULL; int rc = API(cif_container_get_all_loops(CONT[hi], &ls)), i;
          ob_printf(&OUT, "{\"rc\":%d,\"loops\":[", rc);
          if (rc == CIF_OK) { for (i = 0; ls[i]; i++) { if (i) ob_putc(&OUT, ','); dump_loop(&OUT, ls[i]); cif_loop_free(ls[i]); } free(ls); }
          ob_puts(&OUT, "]}"); } return; }
    if (strcmp(c, "loop.cat") == 0) { NEED(2); GETSLOT(li, 1, 'L', NLOOP, LOOPS, 1);
        { UChar *cat = NULL; int rc = API(cif_loop_get_category(LOOPS[li], &cat)); ob_printf(&OUT, "{\"rc\":%d,\"cat\":", rc); ob_jstr(&OUT, cat); ob_putc(&OUT, '}'); if (cat) free(cat); } return; }
    if (strcmp(c, "loop.setcat") == 0) { NEED(3); GETSLOT(li, 1, 'L', NLOOP, LOOPS, 1);
        { int isnull; UChar *cat = tok_ustr(t->tok[2], &isnull); put_rc(API(cif_loop_set_category(LOOPS[li], cat))); h_free(cat); } return; }
    if (strcmp(c, "loop.names") == 0) { NEED(2); GETSLOT(li, 1, 'L', NLOOP, LOOPS, 1);
        { UChar **names = NULL; int rc = API(cif_loop_get_names(LOOPS[li], &names)), i; ob_printf(&OUT, "{\"rc\":%d,\"names\":[", rc);
          if (rc == CIF_OK) { for (i = 0; names[i]; i++) { if (i) ob_putc(&OUT, ','); ob_jstr(&OUT, names[i]); free(names[i]); } free(names); }
          ob_puts(&OUT, "]}"); } return; }
    if (strcmp(c, "loop.additem") == 0) { NEED(4); GETSLOT(li, 1, 'L', NLOOP, LOOPS, 1);
        { int isnull, owned, rc; UChar *name = tok_ustr(t->tok[2], &isnull); cif_value_tp *v; t->pos = 3;
          if (parse_value_lit(t, &v, &owned)) { ob_puts(&OUT, "ERR value"); h_free(name); return; }
          rc = API(cif_loop_add_item(LOOPS[li], name, v)); if (owned && v) cif_value_free(v); h_free(name); put_rc(rc); } return; }
    if (strcmp(c, "loop.addpkt") == 0) { NEED(3); GETSLOT(li, 1, 'L', NLOOP, LOOPS, 1); GETSLOT(pi, 2, 'P', NPKT, PKT, 1);
        put_rc(API(cif_loop_add_packet(LOOPS[li], PKT[pi]))); return; }
    if (strcmp(c, "loop.destroy") == 0) { NEED(2); GETSLOT(li, 1, 'L', NLOOP, LOOPS, 1);
        { int rc = API(cif_loop_destroy(LOOPS[li])); if (rc == CIF_OK) LOOPS[li] = NULL; put_rc(rc); } return; }
    if (strcmp(c, "loop.free") == 0) { NEED(2); GETSLOT(li, 1, 'L', NLOOP, LOOPS, 1); cif_loop_free(LOOPS[li]); LOOPS[li] = NULL; put_rc(0); return; }
    if (strcmp(c, "loop.dump") == 0) { NEED(2); GETSLOT(li, 1, 'L', NLOOP, LOOPS, 1); dump_loop(&OUT, LOOPS[li]); return; }
    if (strcmp(c, "item.get") == 0) { NEED(3); GETSLOT(hi, 1, 'H', NCONT, CONT, 1);
        { int isnull, rc, vi = t->n > 3 ? slot(t->tok[3], 'V', NVAL) : -1, novalue = (t->n > 3 && strcmp(t->tok[3], "-") == 0);
          UChar *name = tok_ustr(t->tok[2], &isnull); cif_value_tp *v = (vi >= 0) ? VAL[vi] : NULL;
          rc = API(cif_container_get_value(CONT[hi], name, novalue ? NULL : &v));
          ob_printf(&OUT, "{\"rc\":%d,\"v\":", rc);
          if (rc == CIF_OK || rc == CIF_AMBIGUOUS_ITEM) dump_value(&OUT, v); else ob_puts(&OUT, "null");
          ob_putc(&OUT, '}');
          if (vi >= 0) VAL[vi] = v; else if (v) cif_value_free(v);
          h_free(name); } return; }
    if (strcmp(c, "item.set") == 0) { NEED(4); GETSLOT(hi, 1, 'H', NCONT, CONT, 1);
        { int isnull, owned, rc; UChar *name = tok_ustr(t->tok[2], &isnull); cif_value_tp *v; t->pos = 3;
          if (parse_value_lit(t, &v, &owned)) { ob_puts(&OUT, "ERR value"); h_free(name); return; }
          rc = API(cif_container_set_value(CONT[hi], name, v)); if (owned && v) cif_value_free(v); h_free(name); put_rc(rc); } return; }
    if (strcmp(c, "item.remove") == 0) { NEED(3); GETSLOT(hi, 1, 'H', NCONT, CONT, 1);
        { int isnull; UChar *name = tok_ustr(t->tok[2], &isnull); put_rc(API(cif_container_remove_item(CONT[hi], name))); h_free(name); } return; }
    /* packets */
    if (strcmp(c, "pkt.create") == 0) { /* pkt.create P n names... ; n=-1 => NULL */
        NEED(3); GETSLOT(pi, 1, 'P', NPKT, PKT, 0);
        { int pos = 2, cnt, rc; UChar **names = read_names(t, &pos, &cnt); cif_packet_tp *p = NULL;
          rc = API(cif_packet_create(&p, names));
          if (PKT[pi]) cif_packet_free(PKT[pi]); PKT[pi] = (rc == CIF_OK) ? p : NULL;
          free_names(names); put_rc(rc); } return; }
    if (strcmp(c, "pkt.set") == 0) { NEED(4); GETSLOT(pi, 1, 'P', NPKT, PKT, 1);
        { int isnull, owned, rc; UChar *name = tok_ustr(t->tok[2], &isnull); cif_value_tp *v; t->pos = 3;
          if (parse_value_lit(t, &v, &owned)) { ob_puts(&OUT, "ERR value"); h_free(name); return; }
          rc = API(cif_packet_set_item(PKT[pi], name, v)); if (owned && v) cif_value_free(v); h_free(name); put_rc(rc); } return; }
    if (strcmp(c, "pkt.get") == 0) { /* pkt.get P name [R<n>] */ NEED(3); GETSLOT(pi, 1, 'P', NPKT, PKT, 1);
        { int isnull, rc, ri = t->n > 3 ? slot(t->tok[3], 'R', NREF) : -1; UChar *name = tok_ustr(t->tok[2], &isnull); cif_value_tp *v = NULL;
          rc = API(cif_packet_get_item(PKT[pi], name, (t->n > 3 && strcmp(t->tok[3], "-") == 0) ? NULL : &v));
          if (ri >= 0 && rc == CIF_OK) REF[ri] = v;
          ob_printf(&OUT, "{\"rc\":%d,\"v\":", rc); if (rc == CIF_OK) dump_value(&OUT, v); else ob_puts(&OUT, "null"); ob_putc(&OUT, '}');
          h_free(name); } return; }
    if (strcmp(c, "pkt.remove") == 0) { /* pkt.remove P name [V<n>|-] */ NEED(3); GETSLOT(pi, 1, 'P', NPKT, PKT, 1);
        { int isnull, rc, vi = t->n > 3 ? slot(t->tok[3], 'V', NVAL) : -1; UChar *name = tok_ustr(t->tok[2], &isnull); cif_value_tp *v = NULL;
          rc = API(cif_packet_remove_item(PKT[pi], name, vi >= 0 ? &v : NULL));
          ob_printf(&OUT, "{\"rc\":%d,\"v\":", rc); if (vi >= 0 && rc == CIF_OK) dump_value(&OUT, v); else ob_puts(&OUT, "null"); ob_putc(&OUT, '}');
          if (vi >= 0 && rc == CIF_OK) { if (VAL[vi]) cif_value_free(VAL[vi]); VAL[vi] = v; }
          h_free(name); } return; }
    if (strcmp(c, "pkt.names") == 0 || strcmp(c, "pkt.dump") == 0) { NEED(2); GETSLOT(pi, 1, 'P', NPKT, PKT, 1); dump_packet(&OUT, PKT[pi]); return; }
    if (strcmp(c, "pkt.free") == 0) { NEED(2); GETSLOT(pi, 1, 'P', NPKT, PKT, 1); cif_packet_free(PKT[pi]); PKT[pi] = NULL; put_rc(0); return; }
    /* iterators */
    if (strcmp(c, "itr.open") == 0) { NEED(3); GETSLOT(li, 1, 'L', NLOOP, LOOPS, 1); GETSLOT(ii, 2, 'I', NITR, ITR, 0);
        { cif_pktitr_tp *it = NULL; int rc = API(cif_loop_get_packets(LOOPS[li], &it)); if (rc == CIF_OK) ITR[ii] = it; put_rc(rc); } return; }
    if (strcmp(c, "itr.next") == 0) { /* itr.next I [P<n>|-] */ NEED(2); GETSLOT(ii, 1, 'I', NITR, ITR, 1);
        { int pi = t->n > 2 ? slot(t->tok[2], 'P', NPKT) : -1, rc; cif_packet_tp *p = NULL, *mine = NULL;
          if (t->n > 2 && strcmp(t->tok[2], "-") == 0) rc = API(cif_pktitr_next_packet(ITR[ii], NULL));
          else if (pi >= 0) { rc = API(cif_pktitr_next_packet(ITR[ii], &PKT[pi])); p = PKT[pi]; }
          else { rc = API(cif_pktitr_next_packet(ITR[ii], &mine)); p = mine; }
          ob_printf(&OUT, "{\"rc\":%d,\"p\":", rc); if (rc == CIF_OK && p) dump_packet(&OUT, p); else ob_puts(&OUT, "null"); ob_putc(&OUT, '}');
          if (mine) cif_packet_free(mine); } return; }
    if (strcmp(c, "itr.update") == 0) { NEED(3); GETSLOT(ii, 1, 'I', NITR, ITR, 1); GETSLOT(pi, 2, 'P', NPKT, PKT, 1);
        put_rc(API(cif_pktitr_update_packet(ITR[ii], PKT[pi]))); return; }
    if (strcmp(c, "itr.remove") == 0) { NEED(2); GETSLOT(ii, 1, 'I', NITR, ITR, 1); put_rc(API(cif_pktitr_remove_packet(ITR[ii]))); return; }
    if (strcmp(c, "itr.close") == 0 || strcmp(c, "itr.abort") == 0) { NEED(2); GETSLOT(ii, 1, 'I', NITR, ITR, 1);
        { int rc = API((c[4] == 'c') ? cif_pktitr_close(ITR[ii]) : cif_pktitr_abort(ITR[ii])); ITR[ii] = NULL; put_rc(rc); } return; }
    /* values */
    if (strcmp(c, "val.new") == 0) { /* val.new V <literal> */ NEED(3); GETSLOT(vi, 1, 'V', NVAL, VAL, 0);
        { cif_value_tp *v; int owned, rc; t->pos = 2; rc = parse_value_lit(t, &v, &owned);
          if (rc) { ob_printf(&OUT, "{\"rc\":%d}", rc); return; }
          if (!owned && v) { cif_value_tp *cl = NULL; rc = API(cif_value_clone(v, &cl)); v = cl; }
          if (VAL[vi]) cif_value_free(VAL[vi]); VAL[vi] = v; put_rc(rc); } return; }
    if (strcmp(c, "val.create") == 0) { NEED(3); GETSLOT(vi, 1, 'V', NVAL, VAL, 0);
        { cif_value_tp *v = NULL; int rc = API(cif_value_create((cif_kind_tp) atoi(t->tok[2]), &v));
          if (rc == CIF_OK) { if (VAL[vi]) cif_value_free(VAL[vi]); VAL[vi] = v; } put_rc(rc); } return; }
#define VREF(var, idx) cif_value_tp *var = NULL; { const char *tk_ = t->tok[idx]; int s_; \
        if ((s_ = slot(tk_, 'V', NVAL)) >= 0) var = VAL[s_]; else if ((s_ = slot(tk_, 'R', NREF)) >= 0) var = REF[s_]; \
        if (!var) { ob_printf(&OUT, "ERR value ref %s", tk_); return; } }
    if (strcmp(c, "val.init") == 0) { NEED(3); { VREF(v, 1); put_rc(API(cif_value_init(v, (cif_kind_tp) atoi(t->tok[2])))); } return; }
    if (strcmp(c, "val.copychar") == 0) { NEED(3); { VREF(v, 1); { int isnull; UChar *s = tok_ustr(t->tok[2], &isnull); put_rc(API(cif_value_copy_char(v, s))); h_free(s); } } return; }
    if (strcmp(c, "val.initchar") == 0) { NEED(3); { VREF(v, 1); { int isnull, rc; UChar *s = tok_ustr(t->tok[2], &isnull); UChar *lib = s ? cif_u_strdup(s) : NULL;
          rc = API(cif_value_init_char(v, lib)); if (rc != CIF_OK && lib) free(lib); h_free(s); put_rc(rc); } } return; }
    if (strcmp(c, "val.parsenumb") == 0) { NEED(3); { VREF(v, 1); { int isnull, rc; UChar *s = tok_ustr(t->tok[2], &isnull); UChar *lib = s ? cif_u_strdup(s) : NULL;
          rc = API(cif_value_parse_numb(v, lib)); if (rc != CIF_OK && lib) free(lib); h_free(s); put_rc(rc); } } return; }
    if (strcmp(c, "val.initnumb") == 0) { NEED(6); { VREF(v, 1); put_rc(API(cif_value_init_numb(v, strtod(t->tok[2], NULL), strtod(t->tok[3], NULL), atoi(t->tok[4]), atoi(t->tok[5])))); } return; }
    if (strcmp(c, "val.autoinit") == 0) { NEED(5); { VREF(v, 1); put_rc(API(cif_value_autoinit_numb(v, strtod(t->tok[2], NULL), strtod(t->tok[3], NULL), (unsigned) atoi(t->tok[4])))); } return; }
    if (strcmp(c, "val.clone") == 0) { /* val.clone <src> V<dst> [into]  : "into" clones into the existing object of the slot */
        NEED(3); { VREF(v, 1); { GETSLOT(di, 2, 'V', NVAL, VAL, 0);
          { int into = (t->n > 3 && strcmp(t->tok[3], "into") == 0 && VAL[di]); cif_value_tp *cl = into ? VAL[di] : NULL; int rc = API(cif_value_clone(v, &cl));
            if (rc == CIF_OK && !into) { if (VAL[di]) cif_value_free(VAL[di]); VAL[di] = cl; } put_rc(rc); } } } return; }
    if (strcmp(c, "val.clean") == 0) { NEED(2); { VREF(v, 1); cif_value_clean(v); put_rc(0); } return; }
    if (strcmp(c, "val.free") == 0) { NEED(2); GETSLOT(vi, 1, 'V', NVAL, VAL, 1); cif_value_free(VAL[vi]); VAL[vi] = NULL; put_rc(0); return; }
    if (strcmp(c, "val.setquoted") == 0 || strcmp(c, "val.tryquoted") == 0) { NEED(3); { VREF(v, 1);
          put_rc(API(c[4] == 's' ? cif_value_set_quoted(v, (cif_quoted_tp) atoi(t->tok[2])) : cif_value_try_quoted(v, (cif_quoted_tp) atoi(t->tok[2])))); } return; }
    if (strcmp(c, "val.dump") == 0) { NEED(2); { VREF(v, 1); dump_value(&OUT, v); } return; }
    if (strcmp(c, "val.getnum") == 0) { NEED(2); { VREF(v, 1); { double d = 0, su = 0; int r1 = API(cif_value_get_number(v, &d)), r2 = API(cif_value_get_su(v, &su));
          ob_printf(&OUT, "{\"rc\":%d,\"num\":\"%.17g\",\"rc2\":%d,\"su\":\"%.17g\",\"v\":", r1, d, r2, su); dump_value(&OUT, v); ob_putc(&OUT, '}'); } } return; }
    if (strcmp(c, "val.num1") == 0 || strcmp(c, "val.su1") == 0) { NEED(2); { VREF(v, 1); { double d = 0; int rc = API(c[4] == 'n' ? cif_value_get_number(v, &d) : cif_value_get_su(v, &d));
          ob_printf(&OUT, "{\"rc\":%d,\"num\":\"%.17g\"}", rc, d); } } return; }
    if (strcmp(c, "val.count") == 0) { NEED(2); { VREF(v, 1); { size_t n = 0; int rc = API(cif_value_get_element_count(v, &n)); ob_printf(&OUT, "{\"rc\":%d,\"n\":%lu}", rc, (unsigned long) n); } } return; }
    if (strcmp(c, "val.getel") == 0) { /* val.getel <v> idx R<n>|- */ NEED(4); { VREF(v, 1); { int ri = slot(t->tok[3], 'R', NREF), rc; cif_value_tp *e = NULL;
          rc = API(cif_value_get_element_at(v, (size_t) strtoul(t->tok[2], NULL, 10), &e)); if (ri >= 0 && rc == CIF_OK) REF[ri] = e;
          ob_printf(&OUT, "{\"rc\":%d,\"v\":", rc); if (rc == CIF_OK) dump_value(&OUT, e); else ob_puts(&OUT, "null"); ob_putc(&OUT, '}'); } } return; }
    if (strcmp(c, "val.setel") == 0 || strcmp(c, "val.insel") == 0) { NEED(4); { VREF(v, 1); { cif_value_tp *e; int owned, rc; t->pos = 3;
          if (parse_value_lit(t, &e, &owned)) { ob_puts(&OUT, "ERR value"); return; }
          rc = API((c[4] == 's') ? cif_value_set_element_at(v, (size_t) strtoul(t->tok[2], NULL, 10), e) : cif_value_insert_element_at(v, (size_t) strtoul(t->tok[2], NULL, 10), e));
          if (owned && e) cif_value_free(e); put_rc(rc); } } return; }
    if (strcmp(c, "val.remel") == 0) { /* val.remel <v> idx V<n>|- */ NEED(4); { VREF(v, 1); { int vi = slot(t->tok[3], 'V', NVAL), rc; cif_value_tp *e = NULL;
          rc = API(cif_value_remove_element_at(v, (size_t) strtoul(t->tok[2], NULL, 10), vi >= 0 ? &e : NULL));
          ob_printf(&OUT, "{\"rc\":%d,\"v\":", rc); if (vi >= 0 && rc == CIF_OK) dump_value(&OUT, e); else ob_puts(&OUT, "null"); ob_putc(&OUT, '}');
          if (vi >= 0 && rc == CIF_OK) { if (VAL[vi]) cif_value_free(VAL[vi]); VAL[vi] = e; } } } return; }
    if (strcmp(c, "val.keys") == 0) { NEED(2); { VREF(v, 1); { const UChar **keys = NULL; int rc = API(cif_value_get_keys(v, &keys)), i; ob_printf(&OUT, "{\"rc\":%d,\"keys\":[", rc);
          if (rc == CIF_OK) { for (i = 0; keys[i]; i++) { if (i) ob_putc(&OUT, ','); ob_jstr(&OUT, keys[i]); } free(keys); } ob_puts(&OUT, "]}"); } } return; }
    if (strcmp(c, "val.setkey") == 0) { NEED(4); { VREF(v, 1); { int isnull, owned, rc; UChar *key = tok_ustr(t->tok[2], &isnull); cif_value_tp *e; t->pos = 3;
          if (parse_value_lit(t, &e, &owned)) { ob_puts(&OUT, "ERR value"); h_free(key); return; }
          rc = API(cif_value_set_item_by_key(v, key, e)); if (owned && e) cif_value_free(e); h_free(key); put_rc(rc); } } return; }
    if (strcmp(c, "val.getkey") == 0) { /* val.getkey <v> key R<n>|- */ NEED(4); { VREF(v, 1); { int isnull, ri = slot(t->tok[3], 'R', NREF), rc; UChar *key = tok_ustr(t->tok[2], &isnull); cif_value_tp *e = NULL;
          rc = API(cif_value_get_item_by_key(v, key, &e)); if (ri >= 0 && rc == CIF_OK) REF[ri] = e;
          ob_printf(&OUT, "{\"rc\":%d,\"v\":", rc); if (rc == CIF_OK) dump_value(&OUT, e); else ob_puts(&OUT, "null"); ob_putc(&OUT, '}'); h_free(key); } } return; }
    if (strcmp(c, "val.remkey") == 0) { /* val.remkey <v> key V<n>|- */ NEED(4); { VREF(v, 1); { int isnull, vi = slot(t->tok[3], 'V', NVAL), rc; UChar *key = tok_ustr(t->tok[2], &isnull); cif_value_tp *e = NULL;
          rc = API(cif_value_remove_item_by_key(v, key, vi >= 0 ? &e : NULL));
          ob_printf(&OUT, "{\"rc\":%d,\"v\":", rc); if (vi >= 0 && rc == CIF_OK) dump_value(&OUT, e); else ob_puts(&OUT, "null"); ob_putc(&OUT, '}');
          if (vi >= 0 && rc == CIF_OK) { if (VAL[vi]) cif_value_free(VAL[vi]); VAL[vi] = e; } h_free(key); } } return; }
    if (strcmp(c, "val.text") == 0) { NEED(2); { VREF(v, 1); { UChar *txt = NULL; int rc = API(cif_value_get_text(v, &txt)); ob_printf(&OUT, "{\"rc\":%d,\"text\":", rc);
          ob_jstr(&OUT, rc == CIF_OK ? txt : NULL); ob_putc(&OUT, '}'); if (rc == CIF_OK && txt) free(txt); } } return; }
    if (strcmp(c, "util.norm") == 0) { /* util.norm <ustr> */ NEED(2); { int isnull, rc; UChar *s = tok_ustr(t->tok[1], &isnull), *r = NULL;
          rc = API(cif_normalize(s, -1, &r)); ob_printf(&OUT, "{\"rc\":%d,\"text\":", rc); ob_jstr(&OUT, rc == CIF_OK ? r : NULL); ob_putc(&OUT, '}');
          if (rc == CIF_OK && r) free(r); h_free(s); } return; }
    if (strcmp(c, "util.cstr") == 0) { /* util.cstr <hex bytes> */ NEED(2); { unsigned char *p = NULL; size_t n = hex_to_bytes(t->tok[1], &p); UChar *r = NULL; int rc;
          p[n] = 0; rc = API(cif_cstr_to_ustr((const char *) p, -1, &r)); ob_printf(&OUT, "{\"rc\":%d,\"text\":", rc); ob_jstr(&OUT, rc == CIF_OK ? r : NULL); ob_putc(&OUT, '}');
          if (rc == CIF_OK && r) free(r); h_free(p); } return; }
    if (strcmp(c, "util.strdup") == 0) { NEED(2); { int isnull; UChar *s = tok_ustr(t->tok[1], &isnull), *r = API(cif_u_strdup(s));
          ob_printf(&OUT, "{\"rc\":%d,\"text\":", r ? 0 : CIF_MEMORY_ERROR); ob_jstr(&OUT, r); ob_putc(&OUT, '}'); if (r) free(r); h_free(s); } return; }
    if (strcmp(c, "util.opts") == 0) { /* util.opts p|w */ NEED(2); { int rc;
          if (t->tok[1][0] == 'p') { struct cif_parse_opts_s *o = NULL; rc = API(cif_parse_options_create(&o)); if (rc == CIF_OK) free(o); }
          else { struct cif_write_opts_s *o = NULL; rc = API(cif_write_options_create(&o)); if (rc == CIF_OK) free(o); }
          put_rc(rc); } return; }
    if (strcmp(c, "ref.clear") == 0) { int i; for (i = 0; i < NREF; i++) REF[i] = NULL; put_rc(0); return; }
    /* byte buffers */
    if (strcmp(c, "bytes.set") == 0 || strcmp(c, "bytes.app") == 0) { NEED(2); int bi = slot(t->tok[1], 'B', NBUF); if (bi < 0) { ob_puts(&OUT, "ERR slot"); return; }
        { unsigned char *p = NULL; size_t n = t->n > 2 ? hex_to_bytes(t->tok[2], &p) : 0; if (c[6] == 's') BUF[bi].n = 0; if (n) bb_append(&BUF[bi], p, n); h_free(p); ob_printf(&OUT, "{\"rc\":0,\"n\":%lu}", (unsigned long) BUF[bi].n); } return; }
    if (strcmp(c, "bytes.rep") == 0) { /* bytes.rep B count hex : append count copies */ NEED(4); int bi = slot(t->tok[1], 'B', NBUF); if (bi < 0) { ob_puts(&OUT, "ERR slot"); return; }
        { unsigned char *p = NULL; size_t n = hex_to_bytes(t->tok[3], &p); long k, cnt = atol(t->tok[2]); for (k = 0; k < cnt; k++) bb_append(&BUF[bi], p, n); h_free(p);
          ob_printf(&OUT, "{\"rc\":0,\"n\":%lu}", (unsigned long) BUF[bi].n); } return; }
    if (strcmp(c, "bytes.get") == 0) { NEED(2); int bi = slot(t->tok[1], 'B', NBUF); if (bi < 0) { ob_puts(&OUT, "ERR slot"); return; }
        { size_t i; ob_puts(&OUT, "{\"rc\":0,\"hex\":\""); ob_reserve(&OUT, BUF[bi].n * 2 + 8);
          for (i = 0; i < BUF[bi].n; i++) { static const char hx[] = "0123456789abcdef"; OUT.s[OUT.n++] = hx[BUF[bi].p[i] >> 4]; OUT.s[OUT.n++] = hx[BUF[bi].p[i] & 15]; }
          OUT.s[OUT.n] = 0; ob_puts(&OUT, "\"}"); } return; }
    if (strcmp(c, "bytes.eq") == 0) { /* bytes.eq Bx By */ NEED(3); { int a = slot(t->tok[1], 'B', NBUF), b = slot(t->tok[2], 'B', NBUF);
        if (a < 0 || b < 0) { ob_puts(&OUT, "ERR slot"); return; }
        ob_printf(&OUT, "{\"rc\":0,\"equal\":%d}", BUF[a].n == BUF[b].n && (BUF[a].n == 0 || memcmp(BUF[a].p, BUF[b].p, BUF[a].n) == 0)); } return; }
    if (strcmp(c, "bytes.check") == 0) { /* properties of written output: magic, UTF-8 validity, longest line in code points, CIF 1.1 character set */
        NEED(2); { int bi = slot(t->tok[1], 'B', NBUF); size_t i = 0, n; const unsigned char *p; long maxline = 0, cur = 0, nlines = 1; int utf8ok = 1, c11 = 1, magic = 0, hascr = 0;
          if (bi < 0) { ob_puts(&OUT, "ERR slot"); return; }
          n = BUF[bi].n; p = BUF[bi].p;
          if (n >= 10 && memcmp(p, "#\\#CIF_2.0", 10) == 0) magic = 2; else if (n >= 10 && memcmp(p, "#\\#CIF_1.1", 10) == 0) magic = 1;
          while (i < n) {
              unsigned char b = p[i]; unsigned long cp = b; int extra = 0, k;
              if (b < 0x80) extra = 0; else if ((b & 0xe0) == 0xc0) { extra = 1; cp = b & 0x1f; } else if ((b & 0xf0) == 0xe0) { extra = 2; cp = b & 0x0f; }
              else if ((b & 0xf8) == 0xf0) { extra = 3; cp = b & 0x07; } else { utf8ok = 0; }
              if (i + extra >= n + (extra ? 0 : 1) && extra) utf8ok = 0;
              for (k = 1; k <= extra && i + k < n; k++) { if ((p[i + k] & 0xc0) != 0x80) utf8ok = 0; cp = (cp << 6) | (p[i + k] & 0x3f); }
              if (extra == 1 && cp < 0x80) utf8ok = 0; if (extra == 2 && (cp < 0x800 || (cp >= 0xd800 && cp <= 0xdfff))) utf8ok = 0; if (extra == 3 && (cp < 0x10000 || cp > 0x10ffff)) utf8ok = 0;
              i += 1 + extra;
              if (cp == '\n') { if (cur > maxline) maxline = cur; cur = 0; nlines++; }
              else { cur++; if (cp == '\r') hascr = 1; if (!(cp == '\t' || (cp >= 0x20 && cp < 0x7f))) c11 = 0; }
          }
          if (cur > maxline) maxline = cur;
          ob_printf(&OUT, "{\"rc\":0,\"n\":%lu,\"magic\":%d,\"utf8\":%d,\"maxline\":%ld,\"cif11chars\":%d,\"lines\":%ld,\"cr\":%d}", (unsigned long) n, magic, utf8ok, maxline, c11, nlines, hascr); } return; }
    if (strcmp(c, "parse.reuse") == 0) { /* parse.reuse C B opts...: parse into the (empty) CIF of the slot, dump it, then destroy every block again */
        NEED(3); { int ci = slot(t->tok[1], 'C', NCIF); cif_block_tp **bs = NULL; int i;
          if (ci < 0 || !CIFS[ci]) { ob_puts(&OUT, "ERR cif slot"); return; }
          cmd_parse(t);
          if (OUT.n && OUT.s[OUT.n - 1] == '}') { OUT.n -= 1; OUT.s[OUT.n] = 0; ob_puts(&OUT, ",\"dump\":"); dump_cif(&OUT, CIFS[ci]); ob_putc(&OUT, '}'); }
          if (cif_get_all_blocks(CIFS[ci], &bs) == CIF_OK) { for (i = 0; bs[i]; i++) (void) cif_container_destroy(bs[i]); free(bs); }
        } return; }
    if (strcmp(c, "contract") == 0) { cmd_contract(t); return; }
    if (strcmp(c, "parse") == 0) { cmd_parse(t); return; }
    if (strcmp(c, "walk") == 0) { NEED(2); cmd_walk(t); return; }
    if (strcmp(c, "write") == 0) { NEED(3); cmd_write(t); return; }
    if (strcmp(c, "dump") == 0) { NEED(2); GETSLOT(ci, 1, 'C', NCIF, CIFS, 1); dump_cif(&OUT, CIFS[ci]); return; }
    if (strcmp(c, "rawdump") == 0) { NEED(2); GETSLOT(ci, 1, 'C', NCIF, CIFS, 1); rawdump_cif(&OUT, CIFS[ci]); return; }
    if (strcmp(c, "autocommit") == 0) { NEED(2); GETSLOT(ci, 1, 'C', NCIF, CIFS, 1); ob_printf(&OUT, "{\"rc\":0,\"autocommit\":%d}", sqlite3_get_autocommit(CIFS[ci]->db)); return; }
    if (strcmp(c, "cold") == 0) {
        /* forget every cached prepared statement of every CIF, so that the next API call prepares what it needs itself */
        int i;
#define COLD(n) do { sqlite3_finalize(CIFS[i]->n##_stmt); CIFS[i]->n##_stmt = NULL; } while (0)
        for (i = 0; i < NCIF; i++) {
            if (CIFS[i] == NULL) continue;
            COLD(create_block); COLD(get_block); COLD(get_all_blocks); COLD(create_frame); COLD(get_frame); COLD(get_all_frames);
            COLD(destroy_container); COLD(validate_container); COLD(create_loop); COLD(get_loopnum); COLD(set_loop_category);
            COLD(add_loop_item); COLD(get_cat_loop); COLD(get_item_loop); COLD(get_all_loops); COLD(prune_container);
            COLD(get_value); COLD(set_all_values); COLD(get_loop_size); COLD(remove_item); COLD(destroy_loop); COLD(get_loop_names);
            COLD(get_packet_num); COLD(update_packet_num); COLD(reset_packet_num); COLD(check_item_loop); COLD(insert_value);
            COLD(fill_packet); COLD(update_value); COLD(remove_packet);
        }
#undef COLD
        put_rc(0);
        return;
    }
    if (strcmp(c, "env") == 0) { ob_puts(&OUT, "{\"locale\":"); ob_jcstr(&OUT, setlocale(LC_NUMERIC, NULL)); ob_printf(&OUT, ",\"round\":%d,\"live\":%ld,\"allocs\":%ld}", fegetround(), wrap_live(), wrap_count()); return; }
    if (strcmp(c, "setlocale") == 0) { NEED(2); { const char *r = setlocale(LC_ALL, t->tok[1]); ob_puts(&OUT, "{\"rc\":0,\"locale\":"); ob_jcstr(&OUT, r); ob_putc(&OUT, '}'); } return; }
    if (strcmp(c, "setround") == 0) { NEED(2); { int m = atoi(t->tok[1]); int modes[4] = { FE_TONEAREST, FE_DOWNWARD, FE_UPWARD, FE_TOWARDZERO }; put_rc(fesetround(modes[m & 3])); } return; }
    if (strcmp(c, "defconv") == 0) { NEED(2); ucnv_setDefaultName(t->tok[1]); ob_puts(&OUT, "{\"rc\":0,\"name\":"); ob_jcstr(&OUT, ucnv_getDefaultName()); ob_putc(&OUT, '}'); return; }
    if (strcmp(c, "fault.arm") == 0) { /* fault.arm <k> [domain 0|1|2] */ NEED(2); wrap_domain(t->n > 2 ? atoi(t->tok[2]) : 0); wrap_arm(atol(t->tok[1])); put_rc(0); return; }
    if (strcmp(c, "fault.domain") == 0) { NEED(2); wrap_domain(atoi(t->tok[1])); put_rc(0); return; }
    if (strcmp(c, "fault.off") == 0) { int f = wrap_fired(); wrap_arm(0); ob_printf(&OUT, "{\"rc\":0,\"fired\":%d}", f); return; }
    if (strcmp(c, "count.reset") == 0) { wrap_count_reset(); put_rc(0); return; }
    ob_printf(&OUT, "ERR unknown command %s", c);
}

/* SQLite and ICU allocate through their own hooks, so that single allocation failures can be injected there as well */
static sqlite3_mem_methods SQ_DEFAULT;
static void *sq_malloc(int n) { if (wrap_should_fail(1)) return NULL; return SQ_DEFAULT.xMalloc(n); }
static void *sq_realloc(void *p, int n) { if (wrap_should_fail(1)) return NULL; return SQ_DEFAULT.xRealloc(p, n); }
static void *icu_alloc(const void *ctx, size_t n) { (void) ctx; if (wrap_should_fail(2)) return NULL; return h_malloc(n); }
static void *icu_realloc(const void *ctx, void *p, size_t n) { (void) ctx; if (wrap_should_fail(2)) return NULL; return h_realloc(p, n); }
static void icu_free(const void *ctx, void *p) { (void) ctx; h_free(p); }
static void install_allocators(void) {
    sqlite3_mem_methods m; UErrorCode e = U_ZERO_ERROR;
    if (sqlite3_config(SQLITE_CONFIG_GETMALLOC, &SQ_DEFAULT) == SQLITE_OK) {
        m = SQ_DEFAULT; m.xMalloc = sq_malloc; m.xRealloc = sq_realloc;
        (void) sqlite3_config(SQLITE_CONFIG_MALLOC, &m);
    }
    u_setMemoryFunctions(NULL, icu_alloc, icu_realloc, icu_free, &e);
}

int main(int argc, char **argv) {
    char *line = NULL; size_t cap = 0; ssize_t len;
    char **script = NULL; size_t ns = 0, caps = 0, i;
    (void) argc; (void) argv;
    setvbuf(stdout, NULL, _IOFBF, 1 << 16);
    if (getenv("CIFX_ALLOCATORS")) install_allocators();
    ucnv_setDefaultName("US-ASCII");
    while ((len = getline(&line, &cap, stdin)) >= 0) {
        while (len > 0 && (line[len - 1] == '\n' || line[len - 1] == '\r')) line[--len] = 0;
        if (strcmp(line, ".") != 0) {
            if (ns == caps) { caps = caps ? caps * 2 : 64; script = (char **) h_realloc(script, caps * sizeof(char *)); }
            script[ns++] = h_strdup(line);
            continue;
        }
        for (i = 0; i < ns; i++) {
            /* tokenise in place */
            toks t; int cap_t = 16; char *p = script[i];
            t.tok = (char **) h_malloc(cap_t * sizeof(char *)); t.n = 0; t.pos = 0;
            while (*p) {
                while (*p == ' ') p++;
                if (!*p) break;
                if (t.n == cap_t) { cap_t *= 2; t.tok = (char **) h_realloc(t.tok, cap_t * sizeof(char *)); }
                t.tok[t.n++] = p;
                while (*p && *p != ' ') p++;
                if (*p) *p++ = 0;
            }
            OUT.n = 0; if (OUT.s) OUT.s[0] = 0;
            if (t.n == 0) ob_puts(&OUT, "ERR empty"); else exec_cmd(&t);
            fwrite(OUT.s ? OUT.s : "", 1, OUT.n, stdout); fputc('\n', stdout);
            h_free(t.tok); h_free(script[i]);
        }
        ns = 0;
        printf(". live=%ld\n", wrap_live());
        fflush(stdout);
    }
    reset_all();
    u_cleanup();
    h_free(script); h_free(OUT.s); { int b; for (b = 0; b < NBUF; b++) h_free(BUF[b].p); }
    /* getline's buffer came from the unwrapped allocator */
    h_free(line);
    return 0;
}
