#include <stdlib.h>
#include <string.h>
#include <stdio.h>
#include "wrap.h"

#ifdef CIFX_WRAP
void *__real_malloc(size_t);
void *__real_calloc(size_t, size_t);
void *__real_realloc(void *, size_t);
void __real_free(void *);
char *__real_strdup(const char *);

static long live = 0, count = 0, armed = 0;
static int fired = 0, domain = 0, gate = 0;     /* domain whose requests are counted / failed: 0 library, 1 SQLite, 2 ICU */

static int should_fail_in(int dom) {
    if (!gate || dom != domain) return 0;
    count += 1;
    if (armed > 0) {
        armed -= 1;
        if (armed == 0) {
            fired = 1;
#if defined(__has_feature)
#if __has_feature(address_sanitizer)
            if (getenv("CIFX_FAULT_TRACE")) { extern void __sanitizer_print_stack_trace(void); fprintf(stderr, "FAULT injected at:\n"); __sanitizer_print_stack_trace(); }
#endif
#endif
            return 1;
        }
    }
    return 0;
}
static int should_fail(void) { return should_fail_in(0); }
void wrap_domain(int d) { domain = d; }
void wrap_gate(int on) { gate = on; }
int wrap_should_fail(int dom) { return should_fail_in(dom); }

void *__wrap_malloc(size_t n) {
    void *p;
    if (should_fail()) return NULL;
    p = __real_malloc(n);
    if (p) live += 1;
    return p;
}
void *__wrap_calloc(size_t a, size_t b) {
    void *p;
    if (should_fail()) return NULL;
    p = __real_calloc(a, b);
    if (p) live += 1;
    return p;
}
void *__wrap_realloc(void *o, size_t n) {
    void *p;
    if (should_fail()) return NULL;
    p = __real_realloc(o, n);
    if (p && !o) live += 1;
    if (o && n == 0 && !p) live -= 1;
    return p;
}
void __wrap_free(void *p) {
    if (p) live -= 1;
    __real_free(p);
}
char *__wrap_strdup(const char *s) {
    char *p;
    if (should_fail()) return NULL;
    p = __real_strdup(s);
    if (p) live += 1;
    return p;
}
long wrap_live(void) { return live; }
long wrap_count(void) { return count; }
void wrap_count_reset(void) { count = 0; }
void wrap_arm(long k) { armed = k; fired = 0; }
int wrap_fired(void) { return fired; }
int wrap_available(void) { return 1; }
void *h_malloc(size_t n) { return __real_malloc(n); }
void *h_realloc(void *p, size_t n) { return __real_realloc(p, n); }
void h_free(void *p) { __real_free(p); }
char *h_strdup(const char *s) { return __real_strdup(s); }
#else
void wrap_domain(int d) { (void) d; }
void wrap_gate(int on) { (void) on; }
int wrap_should_fail(int dom) { (void) dom; return 0; }
long wrap_live(void) { return 0; }
long wrap_count(void) { return 0; }
void wrap_count_reset(void) { }
void wrap_arm(long k) { (void) k; }
int wrap_fired(void) { return 0; }
int wrap_available(void) { return 0; }
void *h_malloc(size_t n) { return malloc(n); }
void *h_realloc(void *p, size_t n) { return realloc(p, n); }
void h_free(void *p) { free(p); }
char *h_strdup(const char *s) { return strdup(s); }
#endif
