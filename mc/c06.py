#!/usr/bin/python3
"""C06: packet iterators deliver each packet once; update/remove act on the current packet; close commits, abort
reverts.  BFS over all sequences of iterator calls (including life-cycle violations) for a family of loop shapes."""
import sys, os
sys.path.insert(0, os.path.dirname(os.path.abspath(__file__)))
from lib import *
from explore import *
from apiops import *
from iterops import *

ITEMS = ['_a', '_b', '_c']
PVALS = [['V1', 'V2', 'V3'], ['V2', 'V1', 'NA'], ['V1', 'V2', 'V3'], ['V3', 'V3', 'V1']]   # packet 0 and 2 are identical


class Shape(Universe):
    def __init__(self, nitems, npackets, scalar, sparse):
        self.nitems, self.npackets, self.scalar, self.sparse = nitems, npackets, scalar, sparse
        self.name = 'items%d-packets%d-%s-%s' % (nitems, npackets, 'scalar' if scalar else 'loop', 'sparse' if sparse else 'dense')

    def setup(self):
        items = ITEMS[:self.nitems]
        s = [CifNew(0), BlkCreate(0, 'b', 'H0'), LoopCreate('H0', '' if self.scalar else ('x' if self.nitems != 2 else None), tuple(items), 'L0'),     # shapes with 2 items: a loop without category
             LoopCreate('H0', None, ('_zz',), 'L2'), LoopGetItem('H0', '_a', 'L1'),
             # a second container whose loop numbering collides differently: its loop 0 holds _zz, its loop 1 the items
             FrmCreate('H0', 's', 'H1'), LoopCreate('H1', None, ('_zz',), 'L3'), LoopCreate('H1', 'x', tuple(items), 'L4'),
             LoopAddPkt('L2', (('_zz', 'V1'),)), LoopAddPkt('L2', (('_zz', 'V2'),)), LoopAddPkt('L2', (('_zz', 'V3'),)),
             LoopAddPkt('L3', (('_zz', 'V3'),)), LoopAddPkt('L3', (('_zz', 'V2'),)),
             LoopAddPkt('L4', ((items[0], 'V3'),)), LoopAddPkt('L4', ((items[0], 'V1'),))]
        for k in range(self.npackets):
            pk = [(items[j], PVALS[k][j]) for j in range(self.nitems)]
            if self.sparse and self.nitems > 1:
                pk = pk[k % self.nitems:][:1]     # a single stored item, rotating
            s.append(LoopAddPkt('L0', tuple(pk)))
        return s

    def ops(self, m):
        o = []
        if 'I0' in m.I:
            it = m.I['I0']
            o.append(ItrNext('I0', 'new'))
            o.append(ItrNext('I0', 'into'))
            o.append(ItrNext('I0', 'empty'))
            if len(it.pending) <= 1 or len(set(repr(sorted(q.items())) for q in it.pending)) == 1:
                o.append(ItrNext('I0', 'null'))
            items = ITEMS[:self.nitems]
            o.append(ItrUpdate('I0', tuple((n, 'NA') for n in items)))
            o.append(ItrUpdate('I0', ((items[-1], 'V2'),)))
            o.append(ItrUpdate('I0', ()))
            o.append(ItrUpdate('I0', (('_zz', 'V1'),)))
            o.append(ItrUpdate('I0', ((items[0], 'V3'), ('_zz', 'V1'))))
            if self.nitems > 1:
                o.append(ItrUpdate('I0', ((items[0], 'V3'), ('_zz', 'V1'), (items[1], 'V3'))))
            o.append(ItrUpdate('I0', (('_zz', 'V1'), (items[0], 'V2'))))
            o.append(ItrUpdate('I0', ((items[0].upper(), 'V2'),)))
            o.append(ItrRemove('I0'))
            o.append(ItrOpenSecond('L2', 'I1'))
            o.append(ItrEnd('I0', 'close'))
            o.append(ItrEnd('I0', 'abort'))
        else:
            o.append(ItrOpen('L0', 'I0'))
            if m.l_live('L0'):
                o.append(LoopAddPkt('L0', ((ITEMS[0], 'V2'),)))
                o.append(ItemSet('H0', '_a', 'V1'))
                if 'L1' in m.L:
                    o.append(LoopDestroy('L1'))   # a second handle on the same loop: L0 then names a loop that no longer exists
            o.append(ItemSet('H0', '_new', 'V1'))
        return o


class TwoCifs(Shape):
    """the loop shape plus a second managed CIF with a loop of its own: an iteration over each may be open at the same time,
    and neither may notice the other (each CIF has its own storage and its own transaction)"""

    def __init__(self, *a):
        super().__init__(*a)
        self.name += '+second-cif'

    def setup(self):
        return super().setup() + [CifNew(1), BlkCreate(1, 'b', 'H5'), LoopCreate('H5', 'x', ('_a', '_b'), 'L5'),
                                  LoopAddPkt('L5', (('_a', 'V2'), ('_b', 'V2'))), LoopAddPkt('L5', (('_a', 'V3'), ('_b', 'V1')))]

    def ops(self, m):
        o = super().ops(m)
        if 'I1' in getattr(m, 'I', {}):
            o += [ItrNext('I1', 'new'), ItrUpdate('I1', (('_a', 'NA'),)), ItrRemove('I1'), ItrEnd('I1', 'close'), ItrEnd('I1', 'abort')]
        else:
            o.append(ItrOpen('L5', 'I1'))
        return o


def shapes(tier):
    out = [TwoCifs(2, 2, False, False)]
    for scalar in (False, True):
        for nitems in (1, 2, 3):
            for npk in (0, 1, 2, 3):
                if scalar and npk > 1:
                    continue
                for sparse in (False, True):
                    if sparse and (nitems == 1 or npk == 0):
                        continue
                    out.append(Shape(nitems, npk, scalar, sparse))
    return out


def main():
    tier = sys.argv[1] if len(sys.argv) > 1 else 'quick'
    rep = Report('C06', tier, 'model_checking')
    dl = deadline(tier, 900, 1500)
    depth = int(os.environ.get('C06_DEPTH', 7 if tier == "quick" else 9))
    tot = {'states': 0, 'transitions': 0}
    per, samples, exhaustive = {}, [], True
    only = os.environ.get('C06_ONLY')
    for u in shapes(tier):
        if only and only not in u.name:
            continue
        st = bfs(u, depth, rep, dl)
        done = st['exhaustive'] and (st['depth_completed'] == depth or st['frontier_left'] == 0)
        per[u.name] = {'states': st['states'], 'transitions': st['transitions'], 'depth_completed': st['depth_completed'], 'exhaustive_to_bound': done}
        tot['states'] += st['states']
        tot['transitions'] += st['transitions']
        samples += st['samples'][:1]
        exhaustive = exhaustive and done
    print('  shapes=%d %s' % (len(per), tot), flush=True)
    return rep.finish({'states': tot['states'], 'transitions': tot['transitions'], 'traces_validated_against_impl': tot['transitions'],
                       'samples': samples[:6] or [['(none)']], 'depth_bound': depth, 'shapes': per, 'exhaustive': exhaustive,
                       'explanation': 'all sequences of get_packets/next (new, NULL, into an existing packet with foreign items, into an empty packet)/update (8 packet shapes)/remove/close/abort, a second get_packets while one iterator is open (refused, and harmless) and follow-up calls up to the depth bound, for every loop shape, and for one shape with a second CIF whose own iterator is opened, used and ended in between; iterator life cycle of DESIGN.md Appendix B as reference'},
                      ['delivery order is unspecified: delivered packets are matched by content', 'update/remove after CIF_FINISHED may answer CIF_MISUSE or act on the last delivered packet'])


if __name__ == '__main__':
    sys.exit(main())
