#!/usr/bin/python3
"""C02 (and, with version=1, C13): everything cif_write emits re-parses to an equivalent CIF.
Bounded-exhaustive families of managed CIFs built through the API, written to memory and re-parsed."""
import sys, os, itertools, time
sys.path.insert(0, os.path.dirname(os.path.abspath(__file__)))
from lib import *
from roundtrip import *

ALPHA2 = ['a', ' ', '\t', "'", '"', ';', '\\', '\n', '[', ']', '{', '}', '#', '_', '$', '?', '.']
ALPHA1 = ['a', ' ', "'", '"', ';', '\\', '\n', '#', '_', '$', '[', '{']
CIF11_OK = set(chr(c) for c in range(0x20, 0x7f)) | {'\t', '\n'}


def bare_ok2(s):
    """may the string be stored unquoted (cif_value_set_quoted(NOT_QUOTED) precondition of the API)?"""
    import re
    if s == '' or s in ('?', '.'):
        return False
    if any(c in ' \t\n\r[]{}' for c in s):
        return False
    if s[0] in '_#$\'"':
        return False
    if re.match(r'^(data_.*|save_.*|loop_|stop_|global_)$', s, re.I):
        return False
    return True


def key_may_be_refused(k):
    a = ("'''" in k) or k.endswith("'")
    b = ('"""' in k) or k.endswith('"')
    single_ok = '\n' not in k and ("'" not in k or '"' not in k)
    return a and b and not single_ok


def all_strings(alpha, L):
    for n in range(0, L + 1):
        for t in itertools.product(alpha, repeat=n):
            yield ''.join(t)


def build_batch(strings):
    """one CIF exercising every string in every position"""
    L = ['cif.new C0', 'blk.create C0 %s H0' % U('b')]
    for i, s in enumerate(strings):
        L.append('item.set H0 %s %s' % (U('_q%d' % i), lit(('s', s, True))))
        if bare_ok2(s):
            L.append('item.set H0 %s %s' % (U('_u%d' % i), lit(('s', s, False))))
    L.append('loop.create H0 - 2 %s %s L0' % (U('_l1'), U('_l2')))
    for i, s in enumerate(strings):
        for pk in ((s, 'x'), ('x', s)):
            L += ['pkt.create P0 0', 'pkt.set P0 %s %s' % (U('_l1'), lit(('s', pk[0], True))), 'pkt.set P0 %s %s' % (U('_l2'), lit(('s', pk[1], True))), 'loop.addpkt L0 P0']
    L.append('item.set H0 %s %s' % (U('_list'), lit(('l', [('s', s, True) for s in strings] + [('s', s, False) for s in strings if bare_ok2(s)]))))
    L.append('item.set H0 %s %s' % (U('_tab'), lit(('t', [('k%d' % i, ('s', s, True)) for i, s in enumerate(strings)]))))
    L.append('item.set H0 %s %s' % (U('_keys'), lit(('t', [(s, ('s', 'x', False)) for s in strings]))))
    return L


def refusal_oracle(strings, version, has_composite=True):
    if version != 1:
        return {DISALLOWED_VALUE} if any(key_may_be_refused(s) for s in strings) else None
    adm = set()
    if has_composite:
        adm.add(DISALLOWED_VALUE)
    if any('\n;' in s for s in strings):
        adm.add(DISALLOWED_VALUE)
    if any(c not in CIF11_OK for s in strings for c in s):
        adm.add(DISALLOWED_CHAR)
    return adm or None


def build_batch_v1(strings):
    """CIF 1.1 cannot hold lists or tables: scalars and a loop only"""
    L = ['cif.new C0', 'blk.create C0 %s H0' % U('b')]
    for i, s in enumerate(strings):
        L.append('item.set H0 %s %s' % (U('_q%d' % i), lit(('s', s, True))))
        if bare_ok2(s):
            L.append('item.set H0 %s %s' % (U('_u%d' % i), lit(('s', s, False))))
    L.append('loop.create H0 - 2 %s %s L0' % (U('_l1'), U('_l2')))
    for i, s in enumerate(strings):
        for pk in ((s, 'x'), ('x', s)):
            L += ['pkt.create P0 0', 'pkt.set P0 %s %s' % (U('_l1'), lit(('s', pk[0], True))), 'pkt.set P0 %s %s' % (U('_l2'), lit(('s', pk[1], True))), 'loop.addpkt L0 P0']
    return L


def check_strings(ex, strings, version, out, depth=0):
    """round-trip a batch; on failure bisect down to single strings"""
    build = build_batch_v1(strings) if version == 1 else build_batch(strings)
    adm = refusal_oracle(strings, version, has_composite=False)
    try:
        res = roundtrip(ex, build, version)
        kind, msg = judge(res, version, adm)
    except Crash as c:
        kind, msg = 'crash', '%s %s' % (c, c.stderr[-1500:])
        ex = worker_exec('fast')
    if kind is None:
        if msg == 'refused' and len(strings) > 1:
            # an admissible refusal hides the other members of the batch: split
            h = len(strings) // 2
            check_strings(ex, strings[:h], version, out, depth + 1)
            check_strings(ex, strings[h:], version, out, depth + 1)
        return
    if len(strings) == 1:
        out.append((kind, strings[0], msg))
        return
    h = len(strings) // 2
    check_strings(ex, strings[:h], version, out, depth + 1)
    check_strings(ex, strings[h:], version, out, depth + 1)


def work_strings(chunk, version):
    ex = worker_exec('fast')
    out = []
    for batch in chunk:
        check_strings(ex, batch, version, out)
    return ('strings', sum(len(b) for b in chunk), out)


# ---------- long-line families ----------
def long_values(version):
    fam = []
    def add(label, s):
        fam.append((label, s))
    for n in list(range(2028, 2056)) + [4090, 4096, 4100]:
        add('a^n', 'a' * n)
        add('a^n+nl', 'a' * n + '\nb')
        add('nl+a^n', 'b\n' + 'a' * n)
        add('mid-long', 'b\n' + 'a' * n + '\nc')
        add('mid-long, last line longer than first', 'b\n' + 'a' * n + '\nccc')
        add('a^n;', 'a' * (n - 1) + ';')
        add(';a^n', ';' + 'a' * (n - 1))
    for off in range(2026, 2052):
        for ch in (' ', ';', '\\', '\t') + (() if version == 1 else ('\U0001F600', 'é')):
            add('a^3000 with %r at %d' % (ch, off), 'a' * off + ch + 'a' * (3000 - off))
            add('a^2100 with %r%r at %d' % (ch, ch, off), 'a' * off + ch + ch + 'a' * (2100 - off))
    # the same sweep for values that need the prefix protocol (first character ';', or a later line starting with ';'):
    # prefix and fold marker must both fit next to the longest folded segment
    for off in range(2026, 2052):
        for ch in (' ', '\t', ';', '\\'):
            add(';a^3000 with %r at %d' % (ch, off), ';' + 'a' * (off - 1) + ch + 'a' * (3000 - off))
            add('x, nl, ;a^3000 with %r at %d' % (ch, off), 'x\n;' + 'a' * (off - 1) + ch + 'a' * (3000 - off))
    for n in range(2034, 2052):
        add(';a^n ending in a backslash', ';' + 'a' * (n - 2) + '\\')
        add('a^n ending in a backslash', 'a' * (n - 1) + '\\')
        add(';a^n ending in a backslash and blanks', ';' + 'a' * (n - 4) + '\\  ')
        add('a^4090, a^n ending in a backslash', 'a' * 4090 + '\n' + 'a' * (n - 1) + '\\\nz')
    # folded fields in which another line ends in a backslash followed by a character that has a lexical role elsewhere
    # (keyword letters, quotes, underscore, semicolon, brackets, hash, dollar): that backslash is content, not a fold
    for tail in ('b', 'D', 'e', 'g', 'L', 'o', 'p', 's', 'T', 'v', 'a', "'", '"', '_', ';', '#', '$', '[', ']', 'x', '1', ' b', 'b '):
        add('long line, then a line ending in backslash+%r' % tail, 'a' * 2100 + '\nq\\' + tail + '\nr')
        add('first line ends in a backslash, later line ends in backslash+%r' % tail, 'k\\\nq\\' + tail + '\nr\\' + tail)
        add('line ending in backslash+%r, then a line starting with a semicolon, then a long line' % tail, 'q\\' + tail + '\n;s\n' + 'a' * 2100)
    # prefixed but not (necessarily) folded: every line of the field carries the prefix, so the limit applies to prefix + line
    for n in range(2036, 2054):
        add('a^n, nl, ;x', 'a' * n + '\n;x')
        add('x, nl, ;y, nl, a^n', 'x\n;y\n' + 'a' * n)
        add('x, nl, ;y, nl, a^n, nl, z', 'x\n;y\n' + 'a' * n + '\nz')
        add('a^n, nl, q, nl, ;x', 'a' * n + '\nq\n;x')
    for n in (2044, 2045, 2046, 2047, 2048, 2049, 2050):
        add(';^n', ';' * n)
        add('a;^n', 'a' + ';' * n)
    add('long then backslash eol', 'a' * 2100 + '\\\nb')
    add('long, line ending in backslash, empty line', 'a' * 2100 + '\\\n\nb')
    add('long with trailing newline', 'a' * 2100 + '\n')
    add('long with trailing blank line', 'a' * 2100 + '\n\n')
    add('long with nl;', 'a' * 2100 + '\n;b')
    add('long with nl; and later plain newline', 'a' * 2100 + '\n;b\nc')
    add('long lines twice', 'a' * 2100 + '\n' + 'b' * 2100)
    add('long, empty line, nl;', 'a' * 2100 + '\n\n;b')
    add('nl; with empty lines and trailing newline', 'a\n\n;b\n\n')
    add('fold-like start with empty line', 'a\\\n\nb')
    add('prefix-like first line long', 'a\\\n' + 'b' * 2100)
    add('fold-like start', '\\\n' + 'b' * 2100)
    add('trailing blanks before newline long', 'a' * 2100 + '  \nb')
    add('blanks only long', ' ' * 2100)
    add('blank then long', ' ' + 'a' * 2100 + ' ')
    for k in (2040, 2046, 2047, 2048):
        add('first line %d then nl' % k, 'a' * k + '\nb')
        add('last line %d' % k, 'b\n' + 'a' * k)
        add("quotes both, line %d" % k, "'\"" + 'a' * k)
    # values longer than the parser's scan buffer (131200 units; it is doubled while a token of more than half its size is being
    # scanned, and compacted otherwise): what cif_write emits for them must still read back as the same value
    for total in (65000, 66000, 131000, 140000, 263000, 300000):
        add('%d characters in lines of 70' % total, ('x' * 69 + '\n') * (total // 70) + 'end')
        add('%d characters in one line' % total, 'y' * total)
        add('%d characters, lines starting with a semicolon' % total, (';' + 'z' * 68 + '\n') * (total // 70) + 'end')
    return fam


def work_long(chunk, version):
    ex = worker_exec('fast')
    out = []
    for label, s in chunk:
        build = ['cif.new C0', 'blk.create C0 %s H0' % U('b'), 'item.set H0 %s %s' % (U('_v'), lit(('s', s, True))), 'item.set H0 %s %s' % (U('_after'), lit(('s', 'z', False)))]
        adm = refusal_oracle([s], version, has_composite=False)
        try:
            res = roundtrip(ex, build, version)
            kind, msg = judge(res, version, adm)
        except Crash as c:
            kind, msg = 'crash', '%s %s' % (c, c.stderr[-1500:])
            ex = worker_exec('fast')
        if kind:
            out.append((kind, label, msg))
    return ('long', len(chunk), out)


# ---------- column positions ----------
def work_columns(chunk, version):
    """short values of every presentation kind written after names of a length that leaves the output column near 2048"""
    ex = worker_exec('fast')
    out = []
    vals = [('s', 'a', False), ('s', 'a b', True), ('s', "it's", True), ('s', 'x\'"y', True), ('s', 'a\nb', True), ('n', '1.5(2)'), ('u',), ('a',)]
    if version != 1:
        vals += [('l', [('s', 'a', False), ('u',)]), ('t', [('k', ('s', 'v', False))]), ('s', ';x', False)]
    for namelen in chunk:
        build = ['cif.new C0', 'blk.create C0 %s H0' % U('b')]
        for i, v in enumerate(vals):
            name = '_%d' % i + 'n' * (namelen - 2)
            build.append('item.set H0 %s %s' % (U(name[:namelen]), lit(v)))
        try:
            res = roundtrip(ex, build, version)
            kind, msg = judge(res, version, None)
        except Crash as c:
            kind, msg = 'crash', '%s %s' % (c, c.stderr[-1500:])
            ex = worker_exec('fast')
        if kind:
            out.append((kind, 'data names of %d characters' % namelen, msg))
    return ('columns', len(chunk) * len(vals), out)


# ---------- structures built by different API routes ----------
def structures(version):
    S = []
    V = {'c': ('s', 'x y', True), 'b': ('s', 'bare', False), 'n': ('n', '-1.25e3(7)'), 'N': ('nq', '0.50(2)'), 'u': ('u',), 'a': ('a',),
         'l': ('l', [('s', 'a', False), ('n', '2'), ('u',), ('l', [('s', 'deep', True), ('t', [('k', ('a',))])])]),
         't': ('t', [('key one', ('s', 'v', False)), ('', ('u',)), ("it's", ('l', [])), ('a"b', ('t', []))]), 'e': ('s', '', True),
         'm': ('s', 'line one\nline two', True), 'q': ('s', "both ' and \"", True), 'x': ('s', ';semi', False)}
    if version == 1:
        V = {k: v for k, v in V.items() if v[0] not in ('l', 't')}
    keys = sorted(V)
    # route 1: set_value scalars in two blocks and frames
    L = ['cif.new C0', 'blk.create C0 %s H0' % U('one'), 'blk.create C0 %s H1' % U('TWO'), 'frm.create H0 %s H2' % U('frame_a'), 'frm.create H0 %s H3' % U('Frame_B')]
    for h in ('H0', 'H1', 'H2', 'H3'):
        for k in keys:
            L.append('item.set %s %s %s' % (h, U('_item_' + k), lit(V[k])))
    S.append(('set_value in blocks and frames', L, False))
    # route 2: loops with several packets through add_packet, plus add_item afterwards
    L = ['cif.new C0', 'blk.create C0 %s H0' % U('b'), 'loop.create H0 %s 3 %s %s %s L0' % (U('cat'), U('_a'), U('_B'), U('_c.d'))]
    for trip in itertools.islice(itertools.product(keys, repeat=3), 0, None, 37):
        L += ['pkt.create P0 0'] + ['pkt.set P0 %s %s' % (U(n), lit(V[k])) for n, k in zip(('_a', '_B', '_c.d'), trip)] + ['loop.addpkt L0 P0']
    L.append('loop.additem L0 %s %s' % (U('_added'), lit(V['c'])))
    L += ['loop.create H0 - 1 %s L1' % U('_single'), 'pkt.create P1 0', 'pkt.set P1 %s %s' % (U('_single'), lit(V['n'])), 'loop.addpkt L1 P1', 'loop.addpkt L1 P1']
    S.append(('loops via add_packet / add_item', L, False))
    # block code, frame code, scalar name and looped name carrying each name character (delimiters that are ordinary inside a
    # name, range boundaries, characters that grow under normalisation) at the start, in the middle, at the end, and doubled
    from c01 import NAME_CHARS1, NAME_CHARS2
    for c in (NAME_CHARS1 if version == 1 else NAME_CHARS2):
        for x in (c + 'x', 'x' + c + 'y', 'x' + c, c + c):
            S.append(('name character %s' % ascii(x), ['cif.new C0', 'blk.create C0 %s H0' % U(x), 'frm.create H0 %s H1' % U(x), 'item.set H0 %s %s' % (U('_' + x), lit(V['b'])),
                                                       'item.set H1 %s %s' % (U('_' + x), lit(V['n'])), 'loop.create H0 - 2 %s %s L0' % (U('_' + x + 'l'), U('_q')),
                                                       'pkt.create P0 0', 'pkt.set P0 %s %s' % (U('_' + x + 'l'), lit(V['c'])), 'pkt.set P0 %s %s' % (U('_q'), lit(V['b'])), 'loop.addpkt L0 P0'], False))
    # route 3: iterator updates and removals
    L = ['cif.new C0', 'blk.create C0 %s H0' % U('b'), 'loop.create H0 - 2 %s %s L0' % (U('_p'), U('_q'))]
    for k in keys:
        L += ['pkt.create P0 0', 'pkt.set P0 %s %s' % (U('_p'), lit(V[k])), 'pkt.set P0 %s %s' % (U('_q'), lit(V['b'])), 'loop.addpkt L0 P0']
    L += ['itr.open L0 I0', 'itr.next I0', 'itr.next I0', 'pkt.create P1 0', 'pkt.set P1 %s %s' % (U('_q'), lit(V['m'])), 'itr.update I0 P1', 'itr.next I0', 'itr.remove I0', 'itr.close I0']
    S.append(('iterator update / remove', L, False))
    # histories that end in a walk stopped by a handler (skip the element, skip its siblings, end the walk) at every callback
    # in turn: a stopped walk is a read, so the CIF must be written afterwards like any other
    L = ['cif.new C0', 'blk.create C0 %s H0' % U('b'), 'item.set H0 %s %s' % (U('_s'), lit(V['c'])), 'loop.create H0 - 2 %s %s L0' % (U('_p'), U('_q'))]
    for k in keys[:3]:
        L += ['pkt.create P0 0', 'pkt.set P0 %s %s' % (U('_p'), lit(V[k])), 'pkt.set P0 %s %s' % (U('_q'), lit(V['b'])), 'loop.addpkt L0 P0']
    L += ['frm.create H0 %s H1' % U('f'), 'loop.create H1 - 1 %s L1' % U('_r'), 'pkt.create P1 0', 'pkt.set P1 %s %s' % (U('_r'), lit(V['n'])), 'loop.addpkt L1 P1', 'loop.addpkt L1 P1',
          'blk.create C0 %s H2' % U('c'), 'item.set H2 %s %s' % (U('_t'), lit(V['b']))]
    for resp in (-3, -2, -1):
        S.append(('walks stopped with %d at every callback, then written' % resp, L + ['walk C0 prog=%d:%d log=0' % (k, resp) for k in range(1, 48)], False))
    for k in range(1, 48):
        S.append(('walk stopped with -3 at callback %d, then written' % k, L + ['walk C0 prog=%d:-3 log=0' % k], False))
    if version != 1:
        # nested frames (need max_frame_depth = -1 to re-parse), non-ASCII names and codes
        L = ['cif.new C0', 'blk.create C0 %s H0' % U('blöck\U00010400'), 'frm.create H0 %s H1' % U('outer'), 'frm.create H1 %s H2' % U('inneré'), 'frm.create H2 %s H3' % U('innermost'),
             'item.set H0 %s %s' % (U('_näme'), lit(('s', 'välue \U0001F600', True))), 'item.set H2 %s %s' % (U('_x'), lit(V['l'])), 'item.set H3 %s %s' % (U('_y\U00010400'), lit(V['t'])),
             'item.set H1 %s %s' % (U('_z'), lit(('s', '\U0001F600', False)))]
        S.append(('nested frames, non-ASCII', L, True))
        # deep nesting
        deep = ('s', 'leaf', False)
        for i in range(6):
            deep = ('l', [deep, ('t', [('k%d' % i, deep)])]) if i % 2 else ('t', [('a', deep), ('b b', ('l', [deep]))])
        S.append(('deeply nested composite', ['cif.new C0', 'blk.create C0 %s H0' % U('b'), 'item.set H0 %s %s' % (U('_deep'), lit(deep))], False))
        # composites long enough to be wrapped many times, shifted so that every entry kind ends at every column near the limit
        for shift in range(0, 24):
            for vlen in (1, 8, 23):
                num = ('n', ('123456789' * 3)[:vlen])
                t = ('t', [('s', ('s', 'a' * shift, True))] + [('k%d' % i, num) for i in range(330)])
                S.append(('table of 330 numbers of %d digits, shifted by %d' % (vlen, shift), ['cif.new C0', 'blk.create C0 %s H0' % U('b'), 'item.set H0 %s %s' % (U('_t'), lit(t))], False))
            l = ('l', [('s', 'a' * shift, True)] + [(('n', str(i)) if i % 3 else ('s', 'w%d' % i, False)) for i in range(500)])
            S.append(('list of 500 numbers and words, shifted by %d' % shift, ['cif.new C0', 'blk.create C0 %s H0' % U('b'), 'item.set H0 %s %s' % (U('_l'), lit(l))], False))
            tt = ('t', [('s', ('s', 'a' * shift, True))] + [('key %d' % i, [('u',), ('a',), ('s', 'v %d' % i, True), ('l', [('n', '1')]), ('t', [('k', ('n', '2'))]), ('s', 'bare%d' % i, False)][i % 6]) for i in range(300)])
            S.append(('table of 300 mixed values, shifted by %d' % shift, ['cif.new C0', 'blk.create C0 %s H0' % U('b'), 'item.set H0 %s %s' % (U('_t'), lit(tt))], False))
        # parse then modify
        doc = "#\\#CIF_2.0\ndata_p\n_a 1\nloop_ _b _c 1 2 3 4\nsave_f _x [a b {'k':v}] save_\n"
        L = ['bytes.set B1 %s' % doc.encode().hex(), 'parse new:C0 B1', 'blk.get C0 %s H0' % U('p'), 'item.set H0 %s %s' % (U('_new'), lit(V['q'])), 'item.remove H0 %s' % U('_a'),
             'loop.getitem H0 %s L0' % U('_b'), 'pkt.create P0 0', 'pkt.set P0 %s %s' % (U('_c'), lit(V['m'])), 'loop.addpkt L0 P0']
        S.append(('parse then modify', L, False))
    return S


def work_struct(chunk, version):
    ex = worker_exec('fast')
    out = []
    for label, build, nested in chunk:
        adm = {DISALLOWED_VALUE} if version == 1 and False else None
        try:
            res = roundtrip(ex, build, version, nested)
            kind, msg = judge(res, version, adm)
        except Crash as c:
            kind, msg = 'crash', '%s %s' % (c, c.stderr[-1500:])
            ex = worker_exec('fast')
        if kind:
            out.append((kind, label, msg))
    return ('structures', len(chunk), out)


def refusal_cases():
    """CIF 1.1 output: content that cannot be expressed, at every kind of place a CIF can hold it; cif_write must refuse"""
    bad_values = [('list', ('l', [('s', 'a', False)]), {DISALLOWED_VALUE}), ('table', ('t', [('k', ('u',))]), {DISALLOWED_VALUE}),
                  ('non-1.1 character in a string', ('s', 'caf\u00e9', True), {DISALLOWED_CHAR, DISALLOWED_VALUE}),
                  ('control character in a string', ('s', 'a\x0bb', True), {DISALLOWED_CHAR, DISALLOWED_VALUE})]
    cases = []
    places = ['block scalar', 'second block scalar', 'block loop first packet', 'block loop last packet', 'frame scalar', 'second frame scalar', 'frame loop packet',
              'frame after a good frame']
    for what, v, codes in bad_values:
        for place in places:
            L = ['cif.new C0', 'blk.create C0 %s H0' % U('one'), 'blk.create C0 %s H1' % U('two'), 'frm.create H0 %s H2' % U('fa'), 'frm.create H0 %s H3' % U('fb'),
                 'item.set H0 %s %s' % (U('_ok'), lit(('s', 'fine', False))), 'item.set H2 %s %s' % (U('_ok'), lit(('s', 'fine', False))),
                 'item.set H3 %s %s' % (U('_ok'), lit(('s', 'fine', False))), 'item.set H1 %s %s' % (U('_ok'), lit(('s', 'fine', False)))]
            if place.endswith('scalar'):
                h = {'block scalar': 'H0', 'second block scalar': 'H1', 'frame scalar': 'H2', 'second frame scalar': 'H3'}[place]
                L.append('item.set %s %s %s' % (h, U('_bad'), lit(v)))
            elif place == 'frame after a good frame':
                L.append('item.set H3 %s %s' % (U('_zzz_bad'), lit(v)))
            else:
                h = 'H2' if place.startswith('frame') else 'H0'
                L += ['loop.create %s - 2 %s %s L0' % (h, U('_p'), U('_q')), 'pkt.create P0 0', 'pkt.set P0 %s %s' % (U('_p'), lit(('n', '1'))),
                      'pkt.set P0 %s %s' % (U('_q'), lit(('s', 'good', False)))]
                first = 'first' in place
                if first:
                    L += ['pkt.set P0 %s %s' % (U('_q'), lit(v)), 'loop.addpkt L0 P0', 'pkt.set P0 %s %s' % (U('_q'), lit(('s', 'good', False))), 'loop.addpkt L0 P0']
                else:
                    L += ['loop.addpkt L0 P0', 'pkt.set P0 %s %s' % (U('_q'), lit(v)), 'loop.addpkt L0 P0']
            cases.append(('%s as %s' % (what, place), L, codes))
    # names and codes outside the CIF 1.1 character set
    for what, L in (('non-1.1 block code', ['cif.new C0', 'blk.create C0 %s H0' % U('bl\u00f6ck'), 'item.set H0 %s ?' % U('_a')]),
                    ('non-1.1 frame code', ['cif.new C0', 'blk.create C0 %s H0' % U('b'), 'item.set H0 %s ?' % U('_a'), 'frm.create H0 %s H1' % U('fr\u00e4me'), 'item.set H1 %s ?' % U('_a')]),
                    ('non-1.1 data name in a block', ['cif.new C0', 'blk.create C0 %s H0' % U('b'), 'item.set H0 %s ?' % U('_n\u00e4me')]),
                    ('non-1.1 data name in a frame', ['cif.new C0', 'blk.create C0 %s H0' % U('b'), 'frm.create H0 %s H1' % U('f'), 'item.set H1 %s ?' % U('_n\u00e4me')]),
                    ('non-1.1 data name in a frame loop', ['cif.new C0', 'blk.create C0 %s H0' % U('b'), 'frm.create H0 %s H1' % U('f'), 'loop.create H1 - 2 %s %s L0' % (U('_a'), U('_n\u00e4me')),
                                                           'pkt.create P0 0', 'pkt.set P0 %s ?' % U('_a'), 'loop.addpkt L0 P0'])):
        cases.append((what, L, {DISALLOWED_CHAR}))
    # the offending name first, in the middle and last among the names of a loop (whatever order the header is written in)
    for names in (('_n\u00e4me', '_a', '_b'), ('_a', '_n\u00e4me', '_b'), ('_a', '_b', '_n\u00e4me'), ('_z', '_n\u00e4me', '_a'), ('_\u00e4', '_b'), ('_b', '_\u00e4'), ('_a', '_\u00e4', '_z', '_\u00f6', '_b')):
        cases.append(('non-1.1 data name among the names of a loop %s' % ascii(names), ['cif.new C0', 'blk.create C0 %s H0' % U('b'), 'loop.create H0 - %d %s L0' % (len(names), ' '.join(U(x) for x in names)),
                                                                         'pkt.create P0 0'] + ['pkt.set P0 %s ?' % U(x) for x in names] + ['loop.addpkt L0 P0'], {DISALLOWED_CHAR}))
    return cases


def work_refuse(chunk, version):
    ex = worker_exec('fast')
    out = []
    for label, build, codes in chunk:
        try:
            a = ex.run(['reset'] + build + ['write C0 B0 v=1', 'write C0 B1 v=1'])
        except Crash as c:
            out.append(('crash', label, '%s %s' % (c, c.stderr[-1500:])))
            ex = worker_exec('fast')
            continue
        bad = [x for x in a[1:1 + len(build)] if not isinstance(x, dict) or x.get('rc', 0) != 0]
        if bad:
            out.append(('driver', label, 'could not build the CIF: %r' % bad[:2]))
            continue
        for w in a[-2:]:
            if not isinstance(w, dict) or w.get('rc') not in codes:
                out.append(('not refused', label, 'cif_write in CIF 1.1 mode answered %r for a CIF holding a %s; one of %r expected (it must never succeed while dropping content)'
                            % (w, label.split(' as ')[0], sorted(codes))))
                break
    return ('refusals', len(chunk), out)


def run(pid, version, tier):
    rep = Report(pid, tier, 'exploration')
    L = int(os.environ.get('RT_L', (4 if tier == 'quick' else 5)))
    alpha = ALPHA1 if version == 1 else ALPHA2
    if version == 1:
        L = int(os.environ.get('RT_L', (4 if tier == 'quick' else 5)))
    strings = list(all_strings(alpha, L))
    if version != 1:
        strings += ['é', '\U0001F600', 'a\U0001F600b', 'é\n;', "'\U0001F600\"", '\ud7ff\ufffd']
    else:
        strings += ['é', 'a\x7f', 'a\x0bb', 'café au lait']
    batches = list(chunked(strings, 60))
    jobs = [(work_strings, c) for c in chunked(batches, max(1, len(batches) // (NPROC * 3) + 1))]
    lv = long_values(version)
    jobs += [(work_long, c) for c in chunked(lv, max(1, len(lv) // (NPROC * 2) + 1))]
    cols = list(range(2030, 2049)) + [3, 10, 100, 1000, 2000]
    jobs += [(work_columns, c) for c in chunked(cols, 3)]
    st = structures(version)
    jobs += [(work_struct, c) for c in chunked(st, 2)]
    if version == 1:
        rc_ = refusal_cases()
        jobs += [(work_refuse, c) for c in chunked(rc_, 6)]
    counts, nontrivial = {}, 0
    for res in pmap(_dispatch, jobs, (version,)):
        if isinstance(res, dict):
            rep.violation({'kind': 'executor'}, res)
            continue
        fam, n, out = res
        counts[fam] = counts.get(fam, 0) + n
        for kind, case, msg in out:
            rep.violation({'family': fam, 'kind': kind, 'case': case if fam != 'strings' else repr(case)},
                          {'family': fam, 'case': case, 'message': msg, 'cif_version': version})
    nontrivial = sum(1 for s in strings if not bare_ok2(s)) + len(lv) + len(st)
    return rep.finish({'evaluations': sum(counts.values()), 'distinct_nontrivial': nontrivial,
                       'rule': ('all strings of length <= %d over %r (plus non-ASCII samples), each stored quoted and - where the API allows - unquoted, as scalar item, as first and later loop value%s; '
                                'long-line families (%d values) sweeping every writer threshold around 2048 and the fold window with blanks, semicolons, backslashes and supplementary characters at every offset; '
                                'data names of 2030..2048 characters so that values of every presentation kind start at every late column; %d structures built by different API routes; CIF 1.1: inexpressible content (list, table, non-1.1 characters in values, names and codes) in blocks, frames and loops must be refused. '
                                'non-trivial = strings that cannot be presented bare, plus the long values and structures') % (
                                    L, ''.join(alpha), '' if version == 1 else ', list element, table value and table key', len(lv), len(st)),
                       'samples': [repr(s) for s in strings[200:203]] + [lv[5][0], st[0][0]],
                       'families': counts, 'cif_version': version, 'exhaustive': True},
                      ['equivalence: same containers by code, loops by item-name set, packets as multisets, values equal in text / quoted status / recursive structure; '
                       'number == unquoted string with the same text; an unquoted string beginning with ";" may come back quoted'])


def _dispatch(job, version):
    fn, chunk = job
    return fn(chunk, version)


if __name__ == '__main__':
    sys.exit(run('C02', 2, sys.argv[1] if len(sys.argv) > 1 else 'quick'))
