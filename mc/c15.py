#!/usr/bin/python3
"""C15: parse-time callbacks mirror the document and steer what is stored.
Well-formed documents (generated from ASTs) x handler programs by deviation-bounded DFS x {storing, syntax-only}; the
handler / syntax callback log, the return code and the stored content are checked by a reference that walks the AST in
document order (DESIGN.md Appendix D)."""
import sys, os, json
sys.path.insert(0, os.path.dirname(os.path.abspath(__file__)))
from lib import *
from model import norm, canon_value
from cifgen import *

CONT, SKIPC, SKIPS, END = 0, -1, -2, -3
ALTS = [SKIPC, SKIPS, END, 10, 1]      # 1 = CIF_FINISHED: a positive code like any other

DOCS = {
    'scalars': [('block', 'b1', [('item', '_a', C('x')), ('item', '_b', C('1.5(2)')), ('item', '_c', C('two words'))])],
    'two-blocks': [('block', 'b1', [('item', '_a', C('x'))]), ('block', 'b2', [('item', '_a', C('y')), ('item', '_b', UNK)])],
    'loop2x2': [('block', 'b1', [('loop', ['_a', '_b'], [[C('1'), C('2')], [C('3'), NA]]), ('item', '_s', C('z'))])],
    'loop-then-loop': [('block', 'b1', [('item', '_s0', C('q')), ('loop', ['_a'], [[C('1')], [C('2')], [C('3')]]),
                                        ('loop', ['_cd', '_c'], [[C('5'), C('6')]]), ('item', '_s', C('z'))])],
    'frames': [('block', 'b1', [('item', '_x', C('0')), ('frame', 'f1', [('item', '_a', C('1'))]),
                                ('frame', 'f2', [('loop', ['_p'], [[C('7')], [C('8')]]), ('item', '_a', C('2'))]), ('item', '_y', C('9'))]),
               ('block', 'b2', [('item', '_z', C('3'))])],
    'composite': [('block', 'b1', [('item', '_l', L(C('a'), L(C('b')), T(('k', C('v'))))), ('item', '_t', T(('x y', UNK), ('z', L()))),
                                   ('loop', ['_m', '_n'], [[L(C('1')), C('2')]])])],
    # the same data names with values in an earlier block, its frame and a later block: what is skipped in one container must
    # not depend on what another container holds
    'shared-names': [('block', 'b1', [('loop', ['_a', '_b'], [[C('1'), C('2')]]), ('frame', 'f1', [('loop', ['_a', '_b'], [[C('3'), C('4')]])])]),
                     ('block', 'b2', [('loop', ['_a', '_b'], [[C('5'), C('6')]]), ('item', '_s', C('z'))])],
    # code points at the edges of the permitted ranges, and a name that grows when normalised, in every kind of name
    'edge-names': [('block', 'b\ufdf0', [('item', '_\ufdf0', C('1')), ('frame', '\ufdcff\U00010000', [('item', '_\u00df\u00df', C('2'))]),
                                        ('loop', ['_x\ufffd', '_\ud7ff\ue000'], [[C('3'), T(('\ufdf0 k', C('4')))]])])],
    # one loop column holding tables / lists of different shapes in consecutive packets (the parser recycles its value objects)
    'composite-column': [('block', 'b1', [('loop', ['_t', '_n'], [[T(('a', C('1')), ('b', C('2'))), C('1')], [T(('c', C('3'))), L(C('x'), C('y'))], [T(), L()], [UNK, NA]])])],
    'three-blocks': [('block', 'b1', [('item', '_a', C('1'))]), ('block', 'b2', [('item', '_a', C('2'))]), ('block', 'b3', [('item', '_a', C('3'))])],
}
COMMENTED = ('frames', 'loop2x2')


# ---------- reference ----------
class Mismatch(Exception):
    pass


class Ref:
    """consumes the observed handler/syntax log while walking the AST in document order"""

    def __init__(self, doc, log, rc, prog, storing):
        self.doc, self.prog, self.rc, self.storing = doc, prog, rc, storing
        self.ev = [e for e in log if e[0] != 'ws']
        self.ws = [e for e in log if e[0] == 'ws']
        self.i = 0
        self.hidx = 0          # index among handler callbacks (the program is keyed by it)
        self.must, self.may = [], []      # cells: (path, name, canon value)
        self.must_containers, self.may_containers = set(), set()
        self.stopped = None

    def peek(self):
        return self.ev[self.i] if self.i < len(self.ev) else None

    def syntax(self, kind, text=None):
        e = self.peek()
        if e is None or e[0] != kind or (text is not None and e[3] != text):
            raise Mismatch('expected syntax callback %s %r, next callback is %r' % (kind, text, e))
        self.i += 1

    def handler(self, kind):
        e = self.peek()
        if e is None or e[0] != kind:
            raise Mismatch('expected handler callback %s (handler invocation #%d), next callback is %r' % (kind, self.hidx, e[:3] if e else None))
        self.i += 1
        r = self.prog.get(self.hidx, CONT)
        self.hidx += 1
        return e, r

    def optional_handler(self, kind):
        e = self.peek()
        if e is not None and e[0] == kind:
            return self.handler(kind)
        return None, None

    class Stop(Exception):
        def __init__(self, code):
            self.code = code

    def act(self, r):
        """END / positive stop everything"""
        if r == END:
            raise Ref.Stop(0)
        if r > 0:
            raise Ref.Stop(r)

    def run(self):
        try:
            self.cif()
            want = 0
        except Ref.Stop as s:
            want = s.code
            self.stopped = want
        rest = [e for e in self.ev[self.i:] if e[0] not in ('dn', 'kw')]
        if self.stopped is not None and rest:
            raise Mismatch('handler callback %r delivered after a handler answered END or an error code' % (rest[0][:2],))
        if self.stopped is None and self.i != len(self.ev):
            raise Mismatch('unexpected extra callback %r' % (self.ev[self.i][:3],))
        if self.rc != want:
            raise Mismatch('cif_parse returned %d, expected %d' % (self.rc, want))

    def cif(self):
        e, r = self.handler('cif_start')
        self.act(r)
        skip = r in (SKIPC, SKIPS)
        later_skipped = False
        for b in self.doc:
            res = self.container(b, (), skip or later_skipped, True)
            if res == 'skips':
                later_skipped = True
        if skip or later_skipped:
            e, r = self.optional_handler('cif_end')
        else:
            e, r = self.handler('cif_end')
        if r is not None:
            self.act(r)

    def container(self, c, path, bypass, isblock):
        """returns 'cont' or 'skips' (later siblings of this container are bypassed)"""
        sev, eev = ('block_start', 'block_end') if isblock else ('frame_start', 'frame_end')
        mypath = path + (norm(c[1]),)
        if bypass:
            # a container that is bypassed altogether gets no callback and must not appear in the stored CIF
            return 'cont'
        e, r = self.handler(sev)
        if self.storing and e[1] != c[1]:
            raise Mismatch('%s reports code %r, document has %r' % (sev, e[1], c[1]))
        self.may_containers.add(mypath)     # the container exists before its start callback is made
        self.act(r)
        if r in (SKIPC, SKIPS):
            self.may_containers.add(mypath)
            self.bypass_elements(c[2], mypath)
            e2, r2 = self.optional_handler(eev)
            if r2 is not None:
                self.act(r2)
                if r2 == SKIPS:
                    return 'skips'
            return 'skips' if r == SKIPS else 'cont'
        self.must_containers.add(mypath)
        rest_skipped = False
        for el in c[2]:
            if rest_skipped:
                self.bypass_elements([el], mypath)
                continue
            res = self.element(el, mypath)
            if res == 'skips':
                rest_skipped = True
        if rest_skipped:
            e2, r2 = self.optional_handler(eev)
        else:
            e2, r2 = self.handler(eev)
        if r2 is not None:
            self.act(r2)
            if r2 == SKIPS:
                return 'skips'
        return 'cont'

    def bypass_elements(self, els, path):
        """no handler / data-name / keyword callback may be delivered for bypassed entities: nothing is consumed here, so
        any such callback shows up as an unexpected one; their content must not be stored (it is in neither cell set)"""
        return

    def element(self, el, path):
        if el[0] == 'item':
            self.syntax('dn', el[1])
            e, r = self.handler('item')
            if e[1] != el[1] or canon_value(e[2]) != canon_value(expected_dump(el[2])):
                raise Mismatch('item callback reports %r = %r, document has %r = %r' % (e[1], e[2], el[1], expected_dump(el[2])))
            self.act(r)
            if r == CONT:
                self.must.append((path, norm(el[1]), (canon_value(expected_dump(el[2])),)))
            return 'skips' if r == SKIPS else 'cont'
        if el[0] == 'frame':
            return self.container(el, path, False, False)
        # loop
        self.syntax('kw')
        for n in el[1]:
            self.syntax('dn', n)
        e, r = self.handler('loop_start')
        if e[1] is None or list(e[1]) != list(el[1]):
            raise Mismatch('loop_start reports names %r, document has %r' % (e[1], el[1]))
        self.act(r)
        if r in (SKIPC, SKIPS):
            e2, r2 = self.optional_handler('loop_end')
            if r2 is not None:
                self.act(r2)
                if r2 == SKIPS:
                    return 'skips'
            return 'skips' if r == SKIPS else 'cont'
        stored, optional = [], []
        try:
            return self.loop_body(el, path, stored, optional)
        finally:
            # also reached when a handler stops the parse: packets accepted before that are kept
            for j, n in enumerate(el[1]):
                self.must.append((path, norm(n), tuple(canon_value(expected_dump(p[j])) for p in stored)))
                self.may.append((path, norm(n), [canon_value(expected_dump(p[j])) for p in optional]))

    def loop_body(self, el, path, stored, optional):
        rest_skipped = False
        for p in el[2]:
            if rest_skipped:
                continue
            e, r = self.handler('packet_start')
            self.act(r)
            if r in (SKIPC, SKIPS):
                e2, r2 = self.optional_handler('packet_end')
                if r2 is not None:
                    self.act(r2)
                    if r2 == SKIPS:
                        rest_skipped = True
                if r == SKIPS:
                    rest_skipped = True
                continue
            items_skipped = False
            optional.append(p)       # until its packet_end is accepted the packet is "in progress"
            for n, v in zip(el[1], p):
                if items_skipped:
                    continue
                e, r = self.handler('item')
                if e[1] != n or canon_value(e[2]) != canon_value(expected_dump(v)):
                    raise Mismatch('item callback in a packet reports %r = %r, document has %r = %r' % (e[1], e[2], n, expected_dump(v)))
                self.act(r)
                if r == SKIPS:
                    items_skipped = True
            if items_skipped:
                # later items of the packet are bypassed; whether the packet is stored is not specified
                e2, r2 = self.optional_handler('packet_end')
            else:
                e2, r2 = self.handler('packet_end')
                got = sorted((norm(n), canon_value(v)) for n, v in e2[1]) if e2[1] else None
                exp = sorted((norm(n), canon_value(expected_dump(v))) for n, v in zip(el[1], p))
                if got != exp:
                    raise Mismatch('packet_end delivers %r, document packet is %r' % (e2[1], exp))
                if r2 == CONT:
                    optional.remove(p)
                    stored.append(p)
                # else SKIP_* / END / error answered by packet_end: stored or not is not specified
            if r2 is not None:
                self.act(r2)
                if r2 == SKIPS:
                    rest_skipped = True
        if rest_skipped:
            e2, r2 = self.optional_handler('loop_end')
        else:
            e2, r2 = self.handler('loop_end')
        if r2 is not None:
            self.act(r2)
            if r2 == SKIPS:
                return 'skips'
        return 'cont'


def cells_of_dump(d):
    """(containers set, {(path, name): sorted list of canon values})"""
    conts, cells = set(), {}

    def walk(c, path):
        p = path + (norm(c['code']),)
        conts.add(p)
        for l in c['loops']:
            for n in l['names']:
                cells[(p, norm(n))] = []
            for pk in l['packets']:
                for n, v in pk:
                    cells.setdefault((p, norm(n)), []).append(canon_value(v))
        for f in c['frames']:
            walk(f, p)
    for b in d['blocks']:
        walk(b, ())
    return conts, cells


def empty_loops(d):
    out = []

    def walk(c, path):
        p = path + (c['code'],)
        for l in c['loops']:
            if not l['packets']:
                out.append((p, tuple(l['names'])))
        for f in c['frames']:
            walk(f, p)
    for b in d['blocks']:
        walk(b, ())
    return out


def check_content(ref, dump):
    conts, cells = cells_of_dump(dump)
    if ref.stopped is None:
        # a loop all of whose packets were passed over has no place in the data model: whatever else was skipped in its container,
        # a parse that ran to its end leaves no loop without packets behind
        el = empty_loops(dump)
        if el:
            return 'loop %r of container %r is left in the stored CIF without any packet' % (el[0][1], el[0][0])
    for c in ref.must_containers:
        if c not in conts:
            return 'container %r is missing from the stored CIF' % (c,)
    for c in conts:
        if c not in ref.must_containers and c not in ref.may_containers:
            return 'container %r was stored although it does not exist / was bypassed' % (c,)
    must = {}
    for path, n, vals in ref.must:
        must.setdefault((path, n), []).extend(vals)
    may = {}
    for path, n, vals in ref.may:
        may.setdefault((path, n), []).extend(vals)
    for k, vals in must.items():
        got = list(cells.get(k, []))
        for v in vals:
            if v in got:
                got.remove(v)
            else:
                if ref.stopped is not None:
                    continue    # content of the element in progress when the parse was stopped: unspecified
                return 'item %r: value %r missing from the stored CIF (stored: %r)' % (k, v, cells.get(k))
        extra = list(got)
        for v in may.get(k, []):
            if v in extra:
                extra.remove(v)
        if extra:
            return 'item %r: unexpected stored value(s) %r' % (k, extra)
    for k, got in cells.items():
        if k in must:
            continue
        extra = list(got)
        for v in may.get(k, []):
            if v in extra:
                extra.remove(v)
        if extra or (k not in may and got):
            return 'item %r holds %r although it was bypassed / not accepted' % (k, got)
        if k not in may and ref.stopped is None:
            # a name without values may linger only as a packet-less loop, which the parser prunes at container end
            return 'item name %r is present in the stored CIF although it was bypassed' % (k,)
    return None


def strip_for_mode_compare(log):
    out = []
    for e in log:
        if e[0] in ('block_start', 'block_end', 'frame_start', 'frame_end', 'cif_start', 'cif_end', 'loop_end'):
            out.append([e[0]])
        else:
            out.append(e)
    return out


def progstr(prog):
    return ','.join('%d:%d' % (k, v) for k, v in sorted(prog.items()))


def doc_text(name):
    return render(DOCS[name], cif2=True, comments=name in COMMENTED)


def run_program(ex, name, prog):
    a = ex.run(['reset', 'bytes.set B0 %s' % doc_text(name).encode().hex(),
                'parse new:C1 B0 h=1 syn=1 prog=%s' % progstr(prog), 'dump C1',
                'parse - B0 h=1 syn=1 prog=%s' % progstr(prog)])
    return a[2], a[3], a[4]


def check_one(name, prog, st, dump, sy):
    doc = DOCS[name]
    for label, a in (('storing', st), ('syntax-only', sy)):
        if not isinstance(a, dict):
            return '%s: bad answer %r' % (label, a)
        if a['nerr']:
            return '%s: error callback invoked on a well-formed document: %r' % (label, a['errs'])
    try:
        r = Ref(doc, st['log'], st['rc'], prog, True)
        r.run()
    except Mismatch as m:
        return 'storing mode: ' + str(m)
    err = check_content(r, dump)
    if err:
        return 'stored content: ' + err
    try:
        Ref(doc, sy['log'], sy['rc'], prog, False).run()
    except Mismatch as m:
        return 'syntax-only mode: ' + str(m)
    if strip_for_mode_compare(st['log']) != strip_for_mode_compare(sy['log']) or st['rc'] != sy['rc']:
        a, b = strip_for_mode_compare(st['log']), strip_for_mode_compare(sy['log'])
        k = next((i for i in range(min(len(a), len(b))) if a[i] != b[i]), min(len(a), len(b)))
        return 'the callback sequence differs between storing and syntax-only mode at callback %d: %r vs %r' % (
            k, a[k] if k < len(a) else None, b[k] if k < len(b) else None)
    for e in st['log']:
        if e[0] == 'ws' and e[3] and not (e[3].strip(' \t\r\n') == '' or e[3].lstrip(' \t\r\n').startswith('#')):
            return 'whitespace callback delivered non-whitespace text %r' % (e[3],)
    return None


def extras(name):
    """per document, with the all-CONTINUE program: (a) at every handler callback in turn a complete, independent cif_parse of another
    document is made from inside the callback - the outer parse must not notice; (b) loop_start assigns a category to the loop
    it is given (the use shown in misc/parser_callbacks.c) - the stored loops must carry exactly those categories"""
    ex = worker_exec('fast')
    out = []
    n = 0
    base = run_program(ex, name, {})
    other = doc_text('composite' if name != 'composite' else 'frames')
    for k in range(base[0]['ncalls']):
        a = ex.run(['reset', 'bytes.set B0 %s' % doc_text(name).encode().hex(), 'bytes.set B1 %s' % other.encode().hex(),
                    'parse new:C1 B0 h=1 syn=1 nest=%d:B1' % k, 'dump C1', 'parse - B0 h=1 syn=1 nest=%d:B1' % k])
        n += 1
        err = check_one(name, {}, a[3], a[4], a[5])
        if err:
            out.append((name, {}, 'with a nested cif_parse of another document inside handler callback #%d: %s' % (k, err)))
    for mode in (1, 2):       # 1: every loop gets a category; 2: only the first one does (the others must stay without)
        n += 1
        setcat_run(ex, name, mode, out)
    return out, n


def setcat_run(ex, name, mode, out):
    a = ex.run(['reset', 'bytes.set B0 %s' % doc_text(name).encode().hex(), 'parse new:C1 B0 h=1 setcat=%d' % mode, 'dump C1'])
    st, dump = a[2], a[3]
    if not isinstance(st, dict) or st.get('rc') != 0 or st.get('nerr') or 'bad-query' in json.dumps(st.get('log')):
        out.append((name, {}, 'loop_start assigning a category: the parse answers %s' % json.dumps(st)[:300]))
        return
    cats = {}
    starts = [e for e in st['log'] if e[0] == 'loop_start']
    for k, e in enumerate(starts):
        want = 'c%d' % k if (mode == 1 or k == 0) else None
        if e[2] != want:
            out.append((name, {}, 'loop_start #%d: the loop reports category %r where %r was expected (categories are assigned to %s)' % (k, e[2], want, 'every loop' if mode == 1 else 'the first loop only')))
        cats.setdefault(tuple(sorted(norm(x) for x in e[1])), []).append(want)

    def visit(c, path):
        for l in c['loops']:
            if l['cat'] == '':
                continue
            key = tuple(sorted(norm(x) for x in l['names']))
            if l['cat'] not in cats.get(key, []):
                out.append((name, {}, 'loop_start assigning a category: stored loop %r of %s has category %r, assigned: %r' % (l['names'], path, l['cat'], cats.get(key))))
        for f in c['frames']:
            visit(f, path + '/' + f['code'])
    for b in dump['blocks']:
        visit(b, b['code'])


def work(chunk, bound):
    ex = worker_exec('fast')
    out = []
    for name, firsts in chunk:
        n_exec, distinct = 0, set()
        level = [{k: r} for k in firsts for r in ALTS]
        if firsts and firsts[0] == 0:
            level.insert(0, {})
        depth = 1
        while level and depth <= bound:
            nxt = []
            for p in level:
                try:
                    st, dump, sy = run_program(ex, name, p)
                except Crash as c:
                    out.append((name, p, 'executor crashed: %s %s' % (c, c.stderr[-1500:])))
                    ex = worker_exec('fast')
                    continue
                n_exec += 1
                err = check_one(name, p, st, dump, sy)
                if err:
                    out.append((name, p, err))
                    continue
                distinct.add(hash(json.dumps(st['log'])))
                if depth < bound and p:
                    last = max(p)
                    for k in range(last + 1, st['ncalls']):
                        for r in ALTS:
                            q = dict(p)
                            q[k] = r
                            nxt.append(q)
            level = nxt
            depth += 1
        out.append((name, None, (n_exec, len(distinct))))
    return out


def main():
    tier = sys.argv[1] if len(sys.argv) > 1 else 'quick'
    rep = Report('C15', tier, 'model_checking')
    bound = int(os.environ.get('C15_BOUND', 3 if tier == 'quick' else 5))
    ex = Exec(exe('fast'))
    sizes = {}
    for name in DOCS:
        st, dump, sy = run_program(ex, name, {})
        sizes[name] = st['ncalls'] if isinstance(st, dict) else 0
    ex.stop()
    chunks = []
    for name in DOCS:
        idx = list(range(sizes[name]))
        for part in chunked(idx, max(1, len(idx) // (4 if bound < 3 else 12))):
            chunks.append([(name, part)])
    execs, distinct = 0, 0
    per = {}
    for res in pmap(work, chunks, (bound,)):
        if isinstance(res, dict):
            rep.violation({'kind': 'executor'}, res)
            continue
        for name, prog, info in res:
            if prog is None:
                execs += info[0]
                distinct += info[1]
                per.setdefault(name, {'programs': 0, 'handler_callbacks_all_continue': sizes[name]})['programs'] += info[0]
                continue
            kind = info.split(':')[0] + ':' + info.split(':')[1][:50] if ':' in info else info[:60]
            kind = ''.join(ch for ch in kind if not ch.isdigit())
            rep.violation({'doc': name, 'kind': kind},
                          {'doc': name, 'text': doc_text(name), 'program': progstr(prog), 'error': info})
    for res in pmap(extras, list(DOCS)):
        if isinstance(res, dict):
            rep.violation({'kind': 'executor'}, res)
            continue
        out, n = res
        execs += n
        for name, prog, info in out:
            kind = ''.join(ch for ch in info[:70] if not ch.isdigit())
            rep.violation({'doc': name, 'kind': kind}, {'doc': name, 'text': doc_text(name), 'program': '', 'error': info})
    return rep.finish({'states': execs, 'transitions': execs * 2, 'traces_validated_against_impl': execs * 2,
                       'evaluations': execs, 'distinct_nontrivial': distinct,
                       'samples': [{'doc': 'frames', 'text': doc_text('frames'), 'program': {4: SKIPS}}], 'deviation_bound': bound,
                       'docs': per, 'alternatives': ALTS, 'exhaustive': True,
                       'explanation': 'states = handler programs executed (every assignment of <=bound non-CONTINUE answers to handler invocations, per document), each parsed twice on the real library (storing and syntax-only) with handler and syntax callbacks logged; log, return code and stored content checked by the AST reference'},
                      ['effects the statement leaves open are admitted both ways (DESIGN.md C15 admissible sets)'])


if __name__ == '__main__':
    sys.exit(main())
