#!/usr/bin/python3
"""C05: a failed API call leaves the managed CIF unchanged.
At every state reached by the C04 universes (BFS over valid histories) every call of a candidate alphabet that the
reference model says must fail is applied - outside and inside an enclosing transaction (an open packet iterator on
another loop) - and the real tables before/after, the transaction state, and the behaviour of follow-up calls
(differentially against the same follow-ups without the failing call) are compared."""
import sys, os
sys.path.insert(0, os.path.dirname(os.path.abspath(__file__)))
from lib import *
import explore
from explore import *
from apiops import *
from iterops import *
import c04

FOLLOW = [LoopCreate('H0', 'fu', ('_fu1', '_fu2'), 'L8'), LoopAddPkt('L8', (('_fu1', 'V1'),)), ItemSet('H0', '_fu3', 'V2'),
          LoopAddItem('L8', '_fu4', 'V3'), BlkCreate(0, 'fu', None)]


def candidates(m):
    """a broad alphabet of calls; those the model predicts to fail at this state are the failing calls"""
    o = []
    hs = [h for h in ('H0', 'H1', 'H2') if m.h_live(h)]
    for h in hs[:2]:
        for names in [('_n1', '_n2', 'bad'), ('bad', '_n1', '_n2'), ('_n1', 'bad', '_n2'),          # invalid first/middle/last
                      ('_a', '_n1', '_n2'), ('_n1', '_a', '_n2'), ('_n1', '_n2', '_a'),           # duplicate of an existing item
                      ('_A', '_n1', '_n2'), ('_n1', '_n2', '_S'),
                      ('_n1', '_n2', '_N1'), ('_n1', '_N1', '_n2'), ('_n1', '_n1', '_n2'),         # duplicate inside the list
                      ('_s', '_n1', '_n2'), ('_n1', '_n2', '_p'), ('_n1', '_c', '_n2')]:
            o.append(LoopCreate(h, 'z', names, 'L7'))
        o.append(LoopCreate(h, '', ('_n1', '_n2'), 'L7'))      # reserved category when a scalar loop exists
        o.append(LoopCreate(h, 'z', (), 'L7'))
        o.append(LoopCreate(h, 'z', None, 'L7'))
        for name in ['_a', '_zz9', 'bad', '_', '_s', '_p']:
            o.append(ItemRemove(h, name))
        o.append(ItemSet(h, 'bad', 'V1'))
        o.append(ItemSet(h, '_b d', 'V1'))
        o.append(ItemSet(h, '_b\ufdef', 'V1'))     # last of the 32 BMP non-characters
        o.append(ItemSet(h, '_\ufdd0', 'V1'))      # first of them
        o.append(FrmCreate(h, 'f\ufdef', None))
        o.append(LoopGetCat(h, None, 'L7'))
        o.append(LoopGetCat(h, 'nope', 'L7'))
        o.append(LoopGetItem(h, '_zz9', 'L7'))
        o.append(FrmCreate(h, 's', None))
        o.append(FrmCreate(h, 'f', None))
        o.append(FrmCreate(h, 'a b', None))
        o.append(FrmCreate(h, '', None))
        o.append(FrmGet(h, 'nope', 'H7'))
    o.append(BlkCreate(0, 'b', None))
    o.append(BlkCreate(0, 'B', None))
    o.append(BlkCreate(0, '', None))
    o.append(BlkCreate(0, 'x y', None))
    o.append(BlkCreate(0, 'x\ufdef', None))
    o.append(BlkCreate(0, '\U0001fffe', None))
    o.append(BlkGet(0, 'nope', 'H7'))
    for l in ['L0', 'L1', 'L2']:
        if l in m.L and m.l_live(l):
            ci, c, lp = m.L[l]
            own = [lp.names[n] for n in sorted(lp.names)]
            if own:
                a = own[0]
                b = own[-1]
                # foreign item first / middle / last among three values
                o.append(LoopAddPkt(l, (('_zz', 'V1'), (a, 'V2'), (b, 'V3'))))
                o.append(LoopAddPkt(l, ((a, 'V2'), ('_zz', 'V1'), (b, 'V3'))))
                o.append(LoopAddPkt(l, ((a, 'V2'), (b, 'V3'), ('_zz', 'V1'))))
                o.append(LoopAddPkt(l, ((a, 'V2'), (b, 'V3'), ('_it', 'V1'))))
                o.append(LoopAddPkt(l, ((a, 'V1'),)))             # a second packet for the scalar loop (fails only there)
                o.append(LoopAddPkt(l, ((a, 'V1'), (b, 'V2'))))
            o.append(LoopAddPkt(l, ()))
            if own:
                # a packet built by cif_packet_create from a names array that repeats one item (the only way to get two entries
                # for one item into a packet): it cannot be stored, wherever the repetition sits
                o.append(AddPktDupNames(l, (a, a.upper(), b)))
                o.append(AddPktDupNames(l, (b, a, a.upper())))
                o.append(AddPktDupNames(l, (a, b, a)))
            for name in ['_a', '_A', 'bad', '_it', '_s', '_p', '_c'] + own[:1]:
                o.append(LoopAddItem(l, name, 'V1'))
            for cat in ['', None, 'q']:
                o.append(LoopSetCat(l, cat))
            if own and lp.packets:
                # update through an iterator with a foreign item first / middle / last (plain variant only)
                o.append(FailingIterUpdate(l, (('_zz', 'V1'), (a, 'V3'), (b, 'NA'))))
                o.append(FailingIterUpdate(l, ((a, 'V3'), ('_zz', 'V1'), (b, 'NA'))))
                o.append(FailingIterUpdate(l, ((a, 'V3'), (b, 'NA'), ('_zz', 'V1'))))
        elif l in m.L and m.container_live(m.L[l][0], m.L[l][1]):
            # the loop itself was destroyed through another handle (its container still exists)
            for what in ['destroy', 'itr', 'additem', 'addpkt', 'setcat']:
                o.append(StaleLoopCall(l, what))
    if m.l_live('L9'):
        for order in ('first', 'last', 'other-loop', 'alone'):
            o.append(SessionBadUpdate(order))
        # a second iterator while the helper iteration is open (same loop / another loop that has packets)
        o.append(SecondIterOpen('L9'))
        for l in ('L0', 'L1', 'L2'):
            if m.l_live(l) and m.L[l][2].packets:
                o.append(SecondIterOpen(l))
                break
    return o


class FailingIterUpdate(Op):
    """open an iterator, deliver one packet, update it with a packet naming a foreign item (must answer
    CIF_WRONG_LOOP and change nothing), close."""
    rc_index = -2
    plain_only = True

    def lines(self):
        l, upd = self.args
        return ['itr.open %s I0' % l, 'itr.next I0', 'pkt.create P1 0'] + ['pkt.set P1 %s %s' % (U(n), vlit(v)) for n, v in upd] + \
               ['itr.update I0 P1', 'itr.close I0']

    def step(self, m, ans):
        p = []
        if ans[-2].get('rc') != WRONG_LOOP:
            p.append('%r: update answered %r, CIF_WRONG_LOOP expected' % (self, ans[-2]))
        if ans[-1].get('rc') != OK or ans[0].get('rc') != OK or ans[1].get('rc') != OK:
            p.append('%r: iterator calls around the failing update answered %r %r %r' % (self, ans[0], ans[1], ans[-1]))
        return p


class SessionBadUpdate(Op):
    """inside the iteration of the 'in-session-close' context (iterator I2 on the helper loop, after a nested read-only call
    and a valid update): an update naming a foreign item must answer CIF_WRONG_LOOP and must not disturb the earlier change"""
    rc_index = -1
    session_only = True

    def lines(self):
        (order,) = self.args
        sets = {'first': [('_zz', 'V1'), ('_it', 'V2')], 'last': [('_it', 'V2'), ('_zz', 'V1')], 'other-loop': [('_it', 'V2'), ('_a', 'V1')], 'alone': [('_zz', 'V1')]}[order]
        return ['pkt.create P6 0'] + ['pkt.set P6 %s %s' % (U(n), vlit(v)) for n, v in sets] + ['itr.update I2 P6']

    def step(self, m, ans):
        return [] if ans[-1].get('rc') == WRONG_LOOP else ['%r: update answered %r, CIF_WRONG_LOOP expected' % (self, ans[-1])]


class AddPktDupNames(Op):
    rc_index = -1

    def lines(self):
        l, names = self.args
        return ['pkt.create P1 %d %s' % (len(names), ' '.join(U(n) for n in names)), 'loop.addpkt %s P1' % l]

    def step(self, m, ans):
        return []


class SecondIterOpen(Op):
    """while the iteration of a non-plain context is open, cif_loop_get_packets on the same CIF is refused (one transaction per
    CIF); the refusal must not disturb the open iteration nor what was done through it"""
    rc_index = -1
    nonplain_only = True

    def lines(self):
        (l,) = self.args
        return ['itr.open %s I3' % l]

    def step(self, m, ans):
        return []


def must_fail(m, op):
    mm = m.clone()
    if isinstance(op, (StaleLoopCall, FailingIterUpdate, SessionBadUpdate, SecondIterOpen, AddPktDupNames)):
        return True
    try:
        if isinstance(op, LoopAddPkt):
            l, pkt = op.args
            eff = {}
            for n, v in pkt:
                eff[norm(n)] = (n, v)
            adm = mm.loop_addpkt(l, list(eff.values()))
        else:
            adm = _adm(mm, op)
    except KeyError:
        return False
    return OK not in adm


def _adm(mm, op):
    t = type(op).__name__
    a = op.args
    f = {'LoopCreate': lambda: mm.loop_create(a[0], a[1], None if a[2] is None else list(a[2]), a[3]),
         'ItemRemove': lambda: mm.item_remove(*a), 'ItemSet': lambda: mm.item_set(a[0], a[1], vdump(a[2])),
         'LoopGetCat': lambda: mm.loop_getcat(*a), 'LoopGetItem': lambda: mm.loop_getitem(*a),
         'FrmCreate': lambda: mm.frm_create(*a), 'FrmGet': lambda: mm.frm_get(*a), 'BlkCreate': lambda: mm.blk_create(*a),
         'BlkGet': lambda: mm.blk_get(*a), 'LoopAddItem': lambda: mm.loop_additem(a[0], a[1], vdump(a[2])),
         'LoopSetCat': lambda: mm.loop_setcat(*a)}[t]
    return f()


def lines_of(ops):
    out, spans = [], []
    for o in ops:
        ls = o.lines()
        spans.append((len(out), len(out) + len(ls)))
        out += ls
    return out, spans


def probe_state(uni, hist, m):
    """returns list of (failing op, variant, problems)"""
    ex = worker_exec('fast')
    res = []
    pre, _ = lines_of(list(uni.setup()) + list(hist))
    fl, fspans = lines_of(FOLLOW)
    ncif = sorted(m.cifs)
    dumps = ['dump C%d' % c for c in ncif]
    raws = ['rawdump C%d' % c for c in ncif]
    base = {}
    variants = ('plain', 'in-tx-close', 'in-tx-abort', 'in-session-close', 'then-session-close') if m.l_live('L9') else ('plain',)

    def ctx(variant):
        if variant == 'plain':
            return [], []
        if variant == 'in-session-close':
            # an iteration that has already seen a nested read-only call (it leaves a savepoint behind) and a valid change
            return (['itr.open L9 I2', 'itr.next I2', 'loop.names L9', 'pkt.create P7 0', 'pkt.set P7 %s c:%s' % (U('_it'), 'changed'.encode('utf-16-be').hex()), 'itr.update I2 P7'],
                    ['itr.close I2'])
        if variant == 'then-session-close':
            # the failing call comes first in the iteration; a valid update and a nested read-only call follow it
            return (['itr.open L9 I2', 'itr.next I2'],
                    ['pkt.create P7 0', 'pkt.set P7 %s c:%s' % (U('_it'), 'changed'.encode('utf-16-be').hex()), 'itr.update I2 P7', 'loop.names L9', 'itr.close I2'])
        return ['itr.open L9 I2', 'itr.next I2'], ['itr.close I2' if variant == 'in-tx-close' else 'itr.abort I2']
    for variant in variants:
        o, c = ctx(variant)
        a = ex.run(['reset'] + pre + o + raws + c + dumps + fl + dumps)
        n0 = 1 + len(pre) + len(o)
        base[variant] = (a[n0:n0 + len(raws)], a[n0 + len(raws):])
    for op in candidates(m):
        if not must_fail(m, op):
            continue
        ol = op.lines()
        for variant in variants:
            if variant != 'plain' and getattr(op, 'plain_only', False):
                continue
            if variant != 'in-session-close' and getattr(op, 'session_only', False):
                continue
            if variant == 'plain' and getattr(op, 'nonplain_only', False):
                continue
            o, c = ctx(variant)
            try:
                a = ex.run(['reset'] + pre + o + raws + ol + raws + c + dumps + fl + dumps)
            except Crash as cr:
                ex = worker_exec('fast')
                res.append((op, variant, [('crash', '%s\n%s' % (cr, cr.stderr[-2000:]))]))
                continue
            problems = []
            n0 = 1 + len(pre) + len(o)
            before = a[n0:n0 + len(raws)]
            ans = a[n0 + len(raws):n0 + len(raws) + len(ol)]
            after = a[n0 + len(raws) + len(ol):n0 + 2 * len(raws) + len(ol)]
            tail = a[n0 + 2 * len(raws) + len(ol):]       # from the closing commands of the context on
            fa = ans[getattr(op, 'rc_index', -1)]
            rc = fa.get('rc') if isinstance(fa, dict) else None
            if rc is None or rc == OK:
                problems.append(('rc', '%r must fail at this state but answered %r' % (op, fa)))
            elif variant == 'plain':
                mm = m.clone()
                p = op.step(mm, ans)
                problems += [('rc', x) for x in p]
            if before != after:
                problems.append(('changed', 'the stored tables differ after the failed call %r (rc=%r)\n  before: %s\n  after : %s' % (
                    op, rc, json.dumps(before)[:1500], json.dumps(after)[:1500])))
            if before != base[variant][0]:
                problems.append(('unstable', 'state before the call differs from the baseline replay'))
            if tail != base[variant][1]:
                problems.append(('follow-up', 'after the failed call %r (rc=%r) the CIF or the follow-up calls behave differently from a history without it\n  with   : %s\n  without: %s' % (
                    op, rc, json.dumps(tail)[:1800], json.dumps(base[variant][1])[:1800])))
            res.append((op, variant, problems))
    return res


class WithHelper:
    """adds a helper loop with one packet (iterated to provide the enclosing transaction)"""

    def setup(self):
        base = super().setup()
        return base + [LoopCreate('H0', 'it', ('_it',), 'L9'), LoopAddPkt('L9', (('_it', 'V1'),))]

    def ops(self, m):
        return [o for o in super().ops(m) if not isinstance(o, (ContPrune, ItemGet, LoopInfo, ContCode, StaleLoopCall)) and not o.query]


class V2(WithHelper, c04.U2):
    name = 'U2-loops+failing'


class V3(WithHelper, c04.U3):
    name = 'U3-packets+failing'


class V4(WithHelper, c04.U4):
    name = 'U4-destroy+failing'


def _work5(chunk, uni):
    out = []
    for hist in chunk:
        m, _, _, _ = replay(worker_exec('fast'), uni, hist, None, observe=False)
        probes = probe_state(uni, hist, m)
        nfail = len(probes)
        bad = [(op, v, p) for op, v, p in probes if p]
        succ = []
        if len(hist) < uni.depth:
            for op in uni.ops(m):
                try:
                    m2, problems, key, obs = replay(worker_exec('fast'), uni, hist, op)
                except Crash:
                    continue
                if not [k for k, _ in problems if k != 'sparse-packet-dropped']:
                    succ.append((op, key))
        out.append((hist, nfail, bad, succ))
    return out


def explore5(uni, depth, rep, dl):
    uni.depth = depth
    ex = Exec(exe('fast'))
    uni.sparse_drop = probe_sparse_drop(ex)
    m, problems, key0, _ = replay(ex, uni, [], None)
    ex.stop()
    seen = {key0}
    frontier = [[]]
    st = {'states': 0, 'failing_calls': 0, 'transitions': 0, 'exhaustive': True, 'samples': [], 'depth_completed': -1}
    for d in range(depth + 1):
        if time.time() > dl:
            st['exhaustive'] = False
            break
        nxt = []
        chunks = list(chunked(frontier, max(1, min(20, len(frontier) // (NPROC * 4) + 1))))
        for res in pmap(_work5, chunks, (uni,)):
            if isinstance(res, dict):
                rep.violation({'universe': uni.name, 'kind': 'executor'}, res)
                continue
            for hist, nfail, bad, succ in res:
                st['states'] += 1
                st['failing_calls'] += nfail
                st['transitions'] += nfail + len(succ)
                for op, variant, problems in bad:
                    for kind in sorted(set(k for k, _ in problems)):
                        rep.violation({'universe': uni.name, 'op': type(op).__name__, 'variant': variant, 'kind': kind},
                                      {'history': [repr(o) for o in hist], 'failing_call': repr(op), 'variant': variant,
                                       'problems': [t for k, t in problems if k == kind][:3],
                                       'script': lines_of(list(uni.setup()) + list(hist))[0] + op.lines()})
                for op, key in succ:
                    if key not in seen:
                        seen.add(key)
                        nxt.append(hist + [op])
                if len(st['samples']) < 2 and hist:
                    st['samples'].append({'history': [repr(o) for o in hist], 'failing_calls_applied': nfail})
        st['depth_completed'] = d
        frontier = nxt
    return st


def main():
    tier = sys.argv[1] if len(sys.argv) > 1 else 'quick'
    rep = Report('C05', tier, 'model_checking')
    dl = deadline(tier, 900, 1500)
    tot = {'states': 0, 'transitions': 0, 'failing_calls': 0}
    per, samples, exhaustive = {}, [], True
    for cls, dq, dt in [(V2, 2, 3), (V3, 2, 3), (V4, 2, 3)]:
        u = cls()
        d = int(os.environ.get('C05_DEPTH', dq if tier == 'quick' else dt))
        st = explore5(u, d, rep, dl)
        per[u.name] = {k: st[k] for k in ('states', 'failing_calls', 'transitions', 'depth_completed', 'exhaustive')}
        per[u.name]['depth_bound'] = d
        for k in tot:
            tot[k] += st[k]
        samples += st['samples']
        exhaustive = exhaustive and st['exhaustive'] and st['depth_completed'] == d
        print('  %s: %s' % (u.name, per[u.name]), flush=True)
    return rep.finish({'states': tot['states'], 'transitions': tot['transitions'], 'traces_validated_against_impl': tot['transitions'],
                       'failing_calls_applied': tot['failing_calls'], 'variants': ['plain', 'inside an open iterator then close', 'inside an open iterator then abort', 'inside an iteration after a nested read-only call and a valid update, then close', 'first in an iteration, followed by a valid update and a nested read-only call, then close'],
                       'samples': samples[:4] or [{'none': 1}], 'universes': per, 'exhaustive': exhaustive,
                       'explanation': 'states = distinct reachable states at which the failing-call alphabet was applied; every failing call is executed on the real library in three transaction contexts with raw-table comparison before/after and a differential follow-up sequence'},
                      ['a call is "failing" when the reference model (mc/model.py) predicts that it cannot succeed at that state'])


if __name__ == '__main__':
    sys.exit(main())
