#!/usr/bin/python3
"""C03: the parser is total and honours the error-callback contract on any input.
All sequences of byte fragments up to a length bound x option settings x every single-rejection policy of the error
callback, executed in the ASan/UBSan build; the contract's invariants are evaluated in-process (harness/cifx.c,
command `contract`) for every execution."""
import sys, os, itertools, json, time
sys.path.insert(0, os.path.dirname(os.path.abspath(__file__)))
from lib import *

FRAGS = [b'data_', b'data_a', b'save_', b'save_a', b'loop_', b'stop_', b'global_', b'_n', b'a', b'1', b'?', b"'", b'"', b"'''", b';', b'\n', b'\r', b' ',
         b'[', b']', b'{', b'}', b':', b'#', b'\\', b'$', b'#\\#CIF_2.0\n', b'#\\#CIF_1.1\n', b'\xef\xbb\xbf', b'\xc3', b'\xe2\x82', b'\xed\xa0\x80',
         b'\xef\xbf\xbe', b'\x00', b'\x7f', b'\xff', b'\n;', b'\xc3\xa9', b'\xf0\x9f\x98\x80', b'\xc2\x85']

WHOLE = []
for text in ['data_a\n_x 1\n', "data_a _x 'q\n", 'data_a _x [1 {\'k\':\n', 'data_a\n_x\n;txt\n;\n']:
    for enc, bom in (('utf-16-le', b'\xff\xfe'), ('utf-16-be', b'\xfe\xff'), ('utf-32-le', b'\xff\xfe\x00\x00'), ('utf-32-be', b'\x00\x00\xfe\xff')):
        WHOLE.append(bom + text.encode(enc))
        WHOLE.append(text.encode(enc))
WHOLE += [b'\xff\xfe' + 'data_a _x \ud800 y'.encode('utf-16-le', 'surrogatepass'), b'\xfe\xff' + 'data_a _x \udc00'.encode('utf-16-be', 'surrogatepass'),
          b'\xff\xfed\x00a\x00t\x00', b'\xff\xfe\x00']

# names that grow when case-folded / normalised (two sharp s, a ligature, dotted capital I) in every kind of name, with and
# without the version comment: the normaliser's buffer handling must terminate
for magic in ('#\\#CIF_2.0\n', ''):
    WHOLE.append((magic + 'data_\u00df\u00df\nsave_\ufb03\n_\u00df\u00df 1\nloop_ _\ufb03\ufb03 _\u0130\u00df\u00df\u00df\n1 2\nsave_\n_t {\'\u00df\u00df\':1}\n').encode('utf-8'))
    WHOLE.append((magic + 'data_a\nloop_\n_\u00df\u00df\u00df\u00df\n_\ufb03\ufb04\n1 2\n').encode('utf-8'))


def option_sets(tier):
    base = ['']
    one = ['p2=-1', 'p2=1', 'p2=20', 'depth=0', 'depth=-1', 'fold=-1', 'fold=1', 'prefix=-1', 'prefix=1', 'ws=0b eol=0c', 'force=1', 'h=1',
           'force=1 enc=ISO-8859-1', 'force=1 enc=UTF-16LE', 'enc=ISO-8859-1', 'enc=nonsense-encoding invalidopts=1', 'p2=-1 fold=1 prefix=1', 'p2=20 depth=0 fold=-1 prefix=-1 ws=0b eol=0c h=1',
           # extra whitespace / end-of-line characters beyond ASCII (NEL, NBSP-1, the top of the table, bytes that are negative as plain char)
           'eol=85', 'ws=85', 'ws=9fa0ff80 eol=9e', 'force=1 enc=ISO-8859-1 eol=85 ws=a0']
    if tier == 'quick':
        return base + one
    full = []
    for p2, depth, fold, prefix, wseol, force, h in itertools.product(['p2=-1', '', 'p2=1', 'p2=20'], ['depth=0', '', 'depth=-1'], ['fold=-1', '', 'fold=1'],
                                                                    ['prefix=-1', '', 'prefix=1'], ['', 'ws=0b eol=0c'], ['', 'force=1'], ['', 'h=1']):
        full.append(' '.join(x for x in (p2, depth, fold, prefix, wseol, force, h) if x))
    return full + one[12:16] + one[18:]


def work(chunk, cfg):
    ex = worker_exec(cfg)
    out = []
    n = nerrs = 0
    codes_seen = set()

    def setup():
        ex.run(['reset', 'cif.new C0', 'blk.create C0 %s H0' % U('pre'), 'item.set H0 %s b:0031' % U('_x'), 'blk.create C0 %s H1' % U('prea'), 'cont.free H0', 'cont.free H1'])
    setup()
    for data, optsets, targets in chunk:
        lines = ['bytes.set B0 %s' % data.hex()]
        metas = []
        for opts in optsets:
            for target in targets:
                lines.append('contract B0 %s %s' % (target, opts))
                metas.append((opts, target))
        try:
            ans = ex.run(lines, timeout=120)
        except Crash as c:
            # find the single command that dies
            culprit = None
            for (opts, target) in metas:
                try:
                    ex2 = worker_exec(cfg)
                    setup()
                    ex2.run(['bytes.set B0 %s' % data.hex(), 'contract B0 %s %s' % (target, opts)], timeout=60)
                except Crash as c2:
                    culprit = (opts, target, c2)
                    break
            if culprit:
                out.append((data, culprit[0], culprit[1], 'sanitizer report / crash / hang: %s\n%s' % (culprit[2], culprit[2].stderr[-2500:])))
            else:
                out.append((data, '*', '*', 'the batch crashed but no single command reproduces it: %s %s' % (c, c.stderr[-1500:])))
            ex = worker_exec(cfg)
            setup()
            continue
        for (opts, target), a in zip(metas, ans[1:]):
            n += 1
            if not isinstance(a, dict):
                out.append((data, opts, target, 'bad answer %r' % (a,)))
                continue
            if a['n']:
                nerrs += 1
            codes_seen.update(a['codes'])
            for p in a['problems']:
                out.append((data, opts, target, p))
    rc, err = drop_worker_exec(cfg)
    if rc not in (0,) and 'LeakSanitizer' in err:
        out.append((b'', '*', '*', 'LeakSanitizer at executor exit (some input of this chunk leaks): %s' % err[-2500:]))
    return (n, nerrs, sorted(codes_seen), out)


def main():
    tier = sys.argv[1] if len(sys.argv) > 1 else 'quick'
    rep = Report('C03', tier, 'exploration')
    cfg = os.environ.get('C03_CFG', 'san')
    L = int(os.environ.get('C03_L', 2))
    LD = int(os.environ.get('C03_LD', 3 if tier == 'quick' else 4))
    base_sets = option_sets('quick')
    osets = option_sets(tier)
    jobs = []
    cross_inputs = []
    dl = deadline(tier, 600, 2700)
    # every fragment sequence up to L under every option set; up to LD under the default options and three corners
    CORE = FRAGS[:26]
    for n in range(0, LD + 1):
        for seq in itertools.product(FRAGS, repeat=n):
            data = b''.join(seq)
            if n <= L:
                # a brand-new target costs a cif_create per parse (16 ms under ASan): default options only
                jobs.append((data, base_sets[:1], ('', 'target=new', 'target=C0')))
                jobs.append((data, base_sets[1:], ('', 'target=C0')))
                if tier != 'quick':
                    cross_inputs.append((n, data))
            elif n == 3:
                core = all(f in CORE for f in seq)
                if tier == 'quick':
                    jobs.append((data, [''], ('', 'target=C0') if core else ('',)))
                else:
                    jobs.append((data, ['', 'p2=-1', 'p2=20 depth=-1 h=1'], ('', 'target=C0')))
                    if core:
                        jobs.append((data, [''], ('target=new',)))
            elif all(f in CORE[:18] for f in seq):
                jobs.append((data, [''], ('',)))
    # grammar-level phrases (each ends with whitespace): duplicates, loops, frames, composites in every order
    PHRASES = [b'#\\#CIF_2.0\n', b'data_a\n', b'data_A\n', b'save_f\n', b'save_\n', b'_n 1\n', b'_m x\n', b'_N\n', b'loop_\n', b'_m\n', b'1 2\n', b"'q' ", b'[1 2]\n', b"{'k':1}\n",
               b'\n;t\n;\n', b'stop_\n', b'x ', b'loop_ _\xc3\xa9 _e\xcc\x81\n', b'_E\xcc\x81 0\n', b"_k {'\xe0\xa5\x98':1 '\xe0\xa5\x98\xe0\xa5\x99':2}\n"]       # the last two: one data name in NFC, in NFD and in another case
    for n in range(1, (4 if tier == 'quick' else 5) + 1):
        for seq in itertools.product(PHRASES, repeat=n):
            if n >= 4 and not (seq[0].startswith(b'data_') or (seq[0].startswith(b'#') and seq[1].startswith(b'data_'))):
                continue
            jobs.append((b''.join(seq), [''], ('target=C0',) if n >= 4 else ('', 'target=C0')))
    for w in WHOLE:
        jobs.append((w, base_sets, ('', 'target=new')))
    # every kind of token ending exactly at, just before and just after a 4096-byte read boundary, followed by every kind of
    # trouble: an error reported (and rejected) while the scanner refills its buffer must not get lost
    TOKENS = [b';text\n;', b"'q s'", b'"q"', b"'''t\nq'''", b'bare', b'[1 2]', b"{'k':v}", b'#cmt', b'?', b"[{'k':[", b'\n;\\\nfol\\\nded\n;']
    TAILS = [b'', b'\xff', b' \xc3', b'\n_y \xed\xa0\x80 1\n', b' \x00 ', b'\x7f', b'\n_y 1 2\n', b':', b'x', b"'", b'\n_x 2\n', b' \xef\xbf\xbe', b'\r\n_y \xc3\x28\n']
    for magic in (b'#\\#CIF_2.0\n', b''):
        head = magic + b'data_a\n_x\n'
        for tkn in TOKENS:
            for boundary in ((4096, 8192) if tier != 'quick' else (4096,)):
                for d in ((-2, -1, 0, 1, 2) if tier != 'quick' else (-1, 0, 1)):
                    m = boundary + d - len(head) - len(tkn) - 1
                    body = head + b'#' + b'p' * (m - 2) + b'\n' + b' ' + tkn
                    assert len(body) == boundary + d
                    for tail in TAILS:
                        jobs.append((body + tail, [''], ('', 'target=new')))
    # megabyte inputs: one token around the scan-buffer sizes, deep nesting
    for nunits in (65599, 65600, 65601, 131199, 131200, 131201, 262400):
        jobs.append((b'data_a\n_x ' + b'v' * nunits + b'\n', [''], ('', 'target=new')))
        jobs.append((b'data_a\n_x\n;' + b'v' * nunits + b'\n;\n', ['', 'p2=-1'], ('', 'target=new')))
        jobs.append((b"#\\#CIF_2.0\ndata_a\n_y " + b'y' * 300 + b"\n_x '''" + b'v' * nunits + b"'''\n", [''], ('', 'target=new')))
    jobs.append((b'data_a _x ' + b'[' * 100000, [''], ('',)))
    jobs.append((b'data_a _x ' + b"{'k':" * 50000, [''], ('',)))
    counters = [0, 0]
    codes = set()
    # thorough: the full cross product of the option values, in slices of 31 option sets, inputs in size order, until the deadline
    phases = [('base', jobs)]
    cross = [o for o in osets if o not in base_sets]
    if tier != 'quick':
        for n in range(0, L + 1):
            ins = [d for (k, d) in cross_inputs if k == n]
            for i in range(0, len(cross), 31):
                phases.append(('cross product: %d-fragment inputs, option sets %d..%d of %d' % (n, i + 1, min(i + 31, len(cross)), len(cross)),
                               [(d, cross[i:i + 31], ('', 'target=C0')) for d in ins]))
    done_phases, skipped = [], []
    for pname, pjobs in phases:
        if pname != 'base' and time.time() > dl:
            skipped.append(pname)
            continue
        done_phases.append(pname)
        run_jobs(pjobs, cfg, rep, codes, counters)
    total, nerr = counters
    return rep.finish({'evaluations': total, 'distinct_nontrivial': nerr, 'phases_completed': len(done_phases), 'phases_skipped_at_deadline': skipped[:3] + (['... %d in all' % len(skipped)] if len(skipped) > 3 else []),
                       'rule': RULE % (L, len(FRAGS), len(base_sets), len(osets), LD),
                       'samples': [FRAGS[1].decode() + FRAGS[7].decode(), "data_a'''"], 'distinct_error_codes_observed': sorted(codes), 'build': cfg, 'exhaustive': not skipped},
                      ['the invariants are evaluated by harness/cifx.c:cmd_contract; sanitizer reports, crashes and hangs count as violations'])


RULE = ('all sequences of at most 4 (thorough 5) of 20 grammar-level phrases (incl. the CIF 2.0 version comment and loop headers repeating a name in NFC / NFD / another case) (data names, loop headers, values, frames, composites; stored into a pre-populated CIF); all sequences of at most %d of the %d byte fragments under %d one-factor-at-a-time and corner option settings x target {none, new, pre-populated} '
        '(thorough: also under the full cross product of %d settings x target {none, pre-populated}, in slices until the deadline), sequences of at most %d fragments under the default options and corner settings, '
        '11 kinds of token ending at a 4096-byte read boundary -1/0/+1 followed by 13 kinds of trouble (CIF 2.0 and 1.1); whole-input UTF-16/32 renderings with and without BOM and with unpaired surrogates, tokens of 65599..262400 units, 100000-deep nesting; for each: the all-accepting callback, then every policy '
        '"accept k-1 errors, answer r at the k-th" (k <= 10; r in CIF_CLIENT_ERROR, the reported code, -1), cif_parse_error_die, NULL callback, NULL options, cif_parse_error_ignore; '
        'evaluations = (input, options, target) cells, each comprising all those parses; non-trivial = cells with at least one reported error')


def run_jobs(jobs, cfg, rep, codes, counters):
    total = nerr = 0
    for res in pmap(work, chunked(jobs, max(1, len(jobs) // (NPROC * 12))), (cfg,)):
        if isinstance(res, dict):
            rep.violation({'kind': 'executor'}, res)
            continue
        n, ne, cs, out = res
        total += n
        nerr += ne
        codes.update(cs)
        for data, opts, target, msg in out:
            kind = ''.join(ch for ch in msg.split('\n')[0][:70] if not ch.isdigit())
            if msg.startswith('negative answer (-1)') or msg.startswith('callback returned -1'):
                kind = 'negative callback answer not honoured'
            rep.violation({'kind': kind, 'input': data[:40].hex() if len(data) <= 40 else '%s...(%d bytes)' % (data[:16].hex(), len(data))},
                          {'input_hex': data[:4000].hex(), 'input_len': len(data), 'options': opts, 'target': target, 'message': msg[:4000]})
    counters[0] += total
    counters[1] += nerr


if __name__ == '__main__':
    sys.exit(main())
