"""Operations of the storage API as (executor lines, model step) pairs, used by the C04/C05/C06 explorers."""
import json
from lib import U
from model import *

# value alphabet: name -> (executor literal, expected dump)
VALS = {
    'V1': ('c:' + 'x'.encode('utf-16-be').hex(), {'k': 'char', 'q': 1, 't': 'x'}),
    'V2': ('n:' + '1.5(2)'.encode('utf-16-be').hex(),
           {'k': 'numb', 'q': 0, 't': '1.5(2)', 'num': '0:1.5', 'su': '0:0.20000000000000001', 'sign': 1, 'dig': '15', 'sud': '2', 'scale': 1}),
    'V3': ('[ b:' + 'y'.encode('utf-16-be').hex() + ' { ' + 'k'.encode('utf-16-be').hex() + ' . } ]',
           {'k': 'list', 'e': [{'k': 'char', 'q': 0, 't': 'y'}, {'k': 'table', 'i': [['k', {'k': 'na'}]]}]}),
    'NA': ('.', {'k': 'na'}),
    None: ('-', None),
}


def vlit(v):
    return VALS[v][0]


def vdump(v):
    return VALS[v][1]


def S(slot):
    return slot if slot is not None else '-'


class Op:
    """name, args; lines() -> executor commands; step(model, answers) -> list of problem strings (and updates model)"""
    query = False

    def __init__(self, *args):
        self.args = args

    def __repr__(self):
        return '%s%r' % (type(self).__name__, self.args)

    def key(self):
        return (type(self).__name__,) + tuple(self.args)


def _rc_check(adm, ans, what):
    if not isinstance(ans, dict) or 'rc' not in ans:
        return ['%s: bad answer %r' % (what, ans)]
    if ans['rc'] not in adm:
        return ['%s: returned %d, admissible %s' % (what, ans['rc'], sorted(adm))]
    return []


def simple_op(name, cmd_fn, model_fn, query=False):
    """build an Op subclass whose model step is model_fn(model, *args) -> admissible set (effect applied iff {OK})"""
    def lines(self):
        return [cmd_fn(*self.args)]

    def step(self, m, ans):
        # the model applies its effect only when it predicts success; if the implementation then disagrees the
        # mismatch is reported here and the histories beyond it are not explored
        adm = model_fn(m, *self.args)
        return _rc_check(adm, ans[0], repr(self))
    return type(name, (Op,), {'lines': lines, 'step': step, 'query': query})


CifNew = simple_op('CifNew', lambda ci: 'cif.new C%d' % ci, lambda m, ci: m.cif_new(ci))
BlkCreate = simple_op('BlkCreate', lambda ci, code, h: 'blk.create C%d %s %s' % (ci, U(code), S(h)),
                      lambda m, ci, code, h: m.blk_create(ci, code, h))
BlkGet = simple_op('BlkGet', lambda ci, code, h: 'blk.get C%d %s %s' % (ci, U(code), S(h)),
                   lambda m, ci, code, h: m.blk_get(ci, code, h))
FrmCreate = simple_op('FrmCreate', lambda hp, code, h: 'frm.create %s %s %s' % (hp, U(code), S(h)),
                      lambda m, hp, code, h: m.frm_create(hp, code, h))
FrmGet = simple_op('FrmGet', lambda hp, code, h: 'frm.get %s %s %s' % (hp, U(code), S(h)),
                   lambda m, hp, code, h: m.frm_get(hp, code, h))
ContDestroy = simple_op('ContDestroy', lambda h: 'cont.destroy %s' % h, lambda m, h: m.cont_destroy(h))
ContFree = simple_op('ContFree', lambda h: 'cont.free %s' % h, lambda m, h: m.cont_free(h))
LoopCreate = simple_op('LoopCreate',
                       lambda h, cat, names, l: 'loop.create %s %s %s %s' % (
                           h, U(cat), ('-1' if names is None else ' '.join([str(len(names))] + [U(n) for n in names])), S(l)),
                       lambda m, h, cat, names, l: m.loop_create(h, cat, None if names is None else list(names), l))
LoopGetCat = simple_op('LoopGetCat', lambda h, cat, l: 'loop.getcat %s %s %s' % (h, U(cat), S(l)),
                       lambda m, h, cat, l: m.loop_getcat(h, cat, l))
LoopGetItem = simple_op('LoopGetItem', lambda h, name, l: 'loop.getitem %s %s %s' % (h, U(name), S(l)),
                        lambda m, h, name, l: m.loop_getitem(h, name, l))
LoopSetCat = simple_op('LoopSetCat', lambda l, cat: 'loop.setcat %s %s' % (l, U(cat)), lambda m, l, cat: m.loop_setcat(l, cat))
LoopAddItem = simple_op('LoopAddItem', lambda l, name, v: 'loop.additem %s %s %s' % (l, U(name), vlit(v)),
                        lambda m, l, name, v: m.loop_additem(l, name, vdump(v)))
LoopDestroy = simple_op('LoopDestroy', lambda l: 'loop.destroy %s' % l, lambda m, l: m.loop_destroy(l))
LoopFree = simple_op('LoopFree', lambda l: 'loop.free %s' % l, lambda m, l: m.loop_free(l))
ContPrune = simple_op('ContPrune', lambda h: 'cont.prune %s' % h, lambda m, h: m.cont_prune(h))
ItemSet = simple_op('ItemSet', lambda h, name, v: 'item.set %s %s %s' % (h, U(name), vlit(v)),
                    lambda m, h, name, v: m.item_set(h, name, vdump(v)))
ItemRemove = simple_op('ItemRemove', lambda h, name: 'item.remove %s %s' % (h, U(name)), lambda m, h, name: m.item_remove(h, name))


PARSE_DOCS = {
    # name -> (text, structure for Model.parse_into); values are spelled so that their dumps are known
    'containers': ("data_B\nsave_S\nsave_\ndata_n\n", [('B', [], [('S', [])]), ('n', [], [])]),
    'items': ("data_B\n_A 'x'\n_e 1.5(2)\nsave_S\n_A 'x'\nsave_\n",
              [('B', [('_A', {'k': 'char', 'q': 1, 't': 'x'}), ('_e', {'k': 'char', 'q': 0, 't': '1.5(2)'})], [('S', [('_A', {'k': 'char', 'q': 1, 't': 'x'})])])]),
}


class ParseInto(Op):
    """cif_parse of a small document INTO an existing managed CIF (all errors accepted): blocks and frames that exist are
    re-opened, items whose names exist are reported and ignored.  Whether the parser also removes packet-less loops of the
    containers it visits is not documented: the model follows the implementation in that one respect."""

    def lines(self):
        ci, doc = self.args
        return ['bytes.set B7 %s' % PARSE_DOCS[doc][0].encode().hex(), 'parse C%d B7' % ci, 'dump C%d' % ci]

    def step(self, m, ans):
        import copy
        ci, doc = self.args
        a = ans[1]
        if not isinstance(a, dict) or a.get('rc') != OK:
            m.parse_into(ci, PARSE_DOCS[doc][1], True)
            return ['%r: cif_parse answered %r' % (self, a)]
        trial = copy.deepcopy(m)
        trial.parse_into(ci, PARSE_DOCS[doc][1], False)
        keep = isinstance(ans[2], dict) and canon_cif_dump(ans[2]) == canon_cif_model(trial.cifs[ci])
        errs = m.parse_into(ci, PARSE_DOCS[doc][1], not keep)
        got = [e[0] for e in a.get('errs', [])]
        if got != errs:
            return ['%r: error codes %r reported, %r expected (re-opened containers and duplicate items)' % (self, got, errs)]
        return []


class StaleLoopCall(Op):
    """a call through a loop handle whose loop no longer exists: any error code, never success, nothing changes"""

    def lines(self):
        l, what = self.args
        if what == 'destroy':
            return ['loop.destroy %s' % l]
        if what == 'itr':
            return ['itr.open %s I3' % l]
        if what == 'additem':
            return ['loop.additem %s %s -' % (l, U('_zz'))]
        if what == 'setcat':
            return ['loop.setcat %s %s' % (l, U('q'))]
        return ['pkt.create P7 1 %s' % U('_a'), 'loop.addpkt %s P7' % l]

    def step(self, m, ans):
        a = ans[-1]
        if not isinstance(a, dict) or a.get('rc') == OK:
            return ['%r on a destroyed loop answered %r (an error code is required)' % (self, a)]
        return []


class ItemGet(Op):
    query = True

    def lines(self):
        h, name = self.args
        return ['item.get %s %s' % (h, U(name))]

    def step(self, m, ans):
        h, name = self.args
        adm, vals = m.item_get(h, name)
        p = _rc_check(adm, ans[0], repr(self))
        if p:
            return p
        rc = ans[0]['rc']
        if rc in (OK, AMBIGUOUS_ITEM):
            got = canon_value(ans[0]['v'])
            if got not in [canon_value(v) for v in vals]:
                return ['%r: value %r not among the stored values %r' % (self, ans[0]['v'], vals)]
        return []


class LoopAddPkt(Op):
    def lines(self):
        l, pkt = self.args
        out = ['pkt.create P0 0']
        for n, v in pkt:
            out.append('pkt.set P0 %s %s' % (U(n), vlit(v)))
        out.append('loop.addpkt %s P0' % l)
        return out

    def step(self, m, ans):
        l, pkt = self.args
        # packet semantics: later entries for an equivalent name replace earlier ones
        eff = {}
        for n, v in pkt:
            eff[norm(n)] = (n, vdump(v) if v is not None else UNK)
        adm = m.loop_addpkt(l, [(n, v) for (n, v) in eff.values()])
        return _rc_check(adm, ans[-1], repr(self))


class LoopInfo(Op):
    """loop_get_category / loop_get_names through a held handle"""
    query = True

    def lines(self):
        return ['loop.cat %s' % self.args[0], 'loop.names %s' % self.args[0]]

    def step(self, m, ans):
        ci, c, lp = m.L[self.args[0]]
        p = _rc_check({OK}, ans[0], 'loop.cat') + _rc_check({OK}, ans[1], 'loop.names')
        if p:
            return p
        if sorted(ans[1]['names']) != sorted(lp.names.values()):
            p.append('%r: names %r, model %r' % (self, ans[1]['names'], sorted(lp.names.values())))
        return p


class ContCode(Op):
    query = True

    def lines(self):
        return ['cont.code %s' % self.args[0], 'cont.isblock %s' % self.args[0]]

    def step(self, m, ans):
        ci, c = m.H[self.args[0]]
        p = _rc_check({OK}, ans[0], 'cont.code')
        if not p and ans[0]['code'] != c.code:
            p.append('%r: code %r, created as %r' % (self, ans[0]['code'], c.code))
        if not p and (ans[1].get('rc') == 0) != c.isblock:
            p.append('%r: assert_block %r for isblock=%r' % (self, ans[1], c.isblock))
        return p


class IterEdit(Op):
    """macro step: open an iterator on loop l, deliver k+1 packets, then remove or update the last delivered one, then
    close or abort.  The packet acted upon is identified by its content (delivery order is unspecified)."""

    def lines(self):
        l, k, action, upd, finish = self.args
        out = ['itr.open %s I0' % l]
        for _ in range(k + 1):
            out.append('itr.next I0')
        if action in ('remove', 'remove+update', 'remove+remove'):
            out.append('itr.remove I0')
            if action == 'remove+remove':
                out.append('itr.remove I0')
        if action in ('update', 'remove+update', 'update+second'):
            out.append('pkt.create P1 0')
            for n, v in upd:
                out.append('pkt.set P1 %s %s' % (U(n), vlit(v)))
            out.append('itr.update I0 P1')
        if action == 'update+second':
            # a second iterator on the same CIF is refused while this one is open, and the refusal is harmless
            out.append('itr.open %s I1' % l)
        out.append('itr.%s I0' % finish)
        return out

    def step(self, m, ans):
        l, k, action, upd, finish = self.args
        ci, c, lp = m.L[l]
        probs = []
        if len(lp.packets) == 0:
            if ans[0].get('rc') != EMPTY_LOOP:
                probs.append('%r: get_packets on a loop without packets answered %r' % (self, ans[0]))
            return probs
        if ans[0].get('rc') != OK:
            return ['%r: get_packets answered %r' % (self, ans[0])]
        remaining = [dict(p) for p in lp.packets]
        cur = None
        for i in range(k + 1):
            a = ans[1 + i]
            if remaining:
                if a.get('rc') != OK:
                    return probs + ['%r: next #%d answered %r with %d packets left' % (self, i, a, len(remaining))]
                got = tuple(sorted((norm(n), canon_value(v)) for n, v in a['p']))
                idx = None
                for j, p in enumerate(remaining):
                    exp = tuple(sorted((n, canon_value(p.get(n, UNK))) for n in lp.names))
                    if exp == got:
                        idx = j
                        break
                if idx is None:
                    return probs + ['%r: delivered packet %r is not one of the remaining packets' % (self, a['p'])]
                cur = remaining.pop(idx)
            else:
                if a.get('rc') != FINISHED:
                    return probs + ['%r: next after the last packet answered %r' % (self, a)]
        # find the model packet object that `cur` was copied from
        target = None
        if cur is not None:
            for p in lp.packets:
                if p == cur:
                    target = p
                    break
        pos = 1 + k + 1
        newpackets = None
        if action in ('remove', 'remove+update', 'remove+remove'):
            a = ans[pos]
            if a.get('rc') != OK:
                probs.append('%r: remove answered %r' % (self, a))
            else:
                newpackets = [p for p in lp.packets if p is not target]
            pos += 1
            if action != 'remove':
                # after a removal the iterator has no current packet: a second remove / an update is a misuse and changes nothing
                a = ans[-2]
                if a.get('rc') != MISUSE:
                    probs.append('%r: %s directly after remove answered %r (CIF_MISUSE expected)' % (self, action.split('+')[1], a))
        elif action in ('update', 'update+second'):
            a = ans[pos + 1 + len(upd)]
            if action == 'update+second' and ans[-2].get('rc') != ERROR:
                probs.append('%r: a second get_packets while the iterator is open answered %r (CIF_ERROR expected)' % (self, ans[-2]))
            eff = {}
            for n, v in upd:
                eff[norm(n)] = vdump(v) if v is not None else UNK
            if any(n not in lp.names for n in eff):
                if a.get('rc') != WRONG_LOOP:
                    probs.append('%r: update with a foreign item answered %r' % (self, a))
            elif a.get('rc') != OK:
                probs.append('%r: update answered %r' % (self, a))
            else:
                newpackets = []
                for p in lp.packets:
                    if p is target:
                        q = dict(p)
                        q.update(eff)
                        newpackets.append(q)
                    else:
                        newpackets.append(p)
        if ans[-1].get('rc') != OK:
            probs.append('%r: %s answered %r' % (self, finish, ans[-1]))
        if finish == 'close' and newpackets is not None:
            lp.packets = newpackets
        return probs
