"""Write / re-parse round-trip machinery shared by C02 (CIF 2.0 output) and C13 (CIF 1.1 output)."""
import json, os, sys, itertools
from lib import *
from model import norm

OK, DISALLOWED_VALUE, DISALLOWED_CHAR = 0, 62, 104


# ---------- value specs: ('s', text, quoted) | ('n', text) | ('u',) | ('a',) | ('l', [specs]) | ('t', [(key, spec)]) ----------
def lit(v):
    k = v[0]
    if k == 's':
        return ('c:' if v[2] else 'b:') + v[1].encode('utf-16-be', 'surrogatepass').hex()
    if k == 'n':
        return 'n:' + v[1].encode('utf-16-be').hex()
    if k == 'nq':
        return 'N:' + v[1].encode('utf-16-be').hex()
    if k == 'u':
        return '?'
    if k == 'a':
        return '.'
    if k == 'l':
        return '[ ' + ' '.join(lit(e) for e in v[1]) + ' ]'
    if k == 't':
        return '{ ' + ' '.join('u:' + key.encode('utf-16-be', 'surrogatepass').hex() + ' ' + lit(e) for key, e in v[1]) + ' }'
    raise ValueError(v)


def canon_spec(v):
    k = v[0]
    if k == 's':
        return ('s', v[1], 1 if v[2] else 0)
    if k == 'n':
        return ('s', v[1], 0)
    if k == 'nq':
        return ('s', v[1], 1)
    if k in ('u', 'a'):
        return (k,)
    if k == 'l':
        return ('l', tuple(canon_spec(e) for e in v[1]))
    return ('t', tuple(sorted((key, canon_spec(e)) for key, e in v[1])))


def canon_dumpval(d):
    k = d['k']
    if k in ('char', 'numb'):
        return ('s', d['t'], d['q'])
    if k == 'unk':
        return ('u',)
    if k == 'na':
        return ('a',)
    if k == 'list':
        return ('l', tuple(canon_dumpval(e) for e in d['e']))
    return ('t', tuple(sorted((key, canon_dumpval(e)) for key, e in d['i'])))


def equiv(a, b):
    """a: value as stored (canon), b: value read back.  The three allowances of the statement: number == unquoted string
    with the same text (already folded into the canon form); an unquoted string beginning with ';' may come back quoted"""
    if a == b:
        return True
    if a[0] == 's' and b[0] == 's':
        return a[1] == b[1] and a[2] == 0 and b[2] == 1 and a[1].startswith(';')
    if a[0] == 'l' and b[0] == 'l':
        return len(a[1]) == len(b[1]) and all(equiv(x, y) for x, y in zip(a[1], b[1]))
    if a[0] == 't' and b[0] == 't':
        return len(a[1]) == len(b[1]) and all(x[0] == y[0] and equiv(x[1], y[1]) for x, y in zip(a[1], b[1]))
    return False


def canon_container(c):
    loops = {}
    for l in c['loops']:
        names = tuple(sorted(l['names']))
        pk = []
        for p in l['packets']:
            pk.append(tuple(sorted((n, canon_dumpval(v)) for n, v in p)))
        loops[names] = sorted(pk, key=repr)
    return {'code': c['code'], 'loops': loops, 'frames': {f['code']: canon_container(f) for f in c['frames']}}


def compare_cifs(orig, back, casefold_names=False):
    """orig / back: executor dumps.  returns None or a description of the first difference"""
    def cmp_c(a, b, path):
        if sorted(a['frames']) != sorted(b['frames']):
            return '%s: save frames %r vs %r' % (path, sorted(a['frames']), sorted(b['frames']))
        # item names are matched by normalised equivalence (scalar names are written in normalised form)
        la = {tuple(sorted(norm(n) for n in k)): v for k, v in a['loops'].items()}
        lb = {tuple(sorted(norm(n) for n in k)): v for k, v in b['loops'].items()}
        if sorted(la) != sorted(lb):
            return '%s: loops by item names %r vs %r' % (path, sorted(a['loops']), sorted(b['loops']))
        for k in la:
            pa, pb = la[k], lb[k]
            if len(pa) != len(pb):
                return '%s loop %r: %d packets written, %d read back' % (path, k, len(pa), len(pb))
            rest = list(pb)
            for p in pa:
                for j, q in enumerate(rest):
                    if len(p) == len(q) and all(norm(x[0]) == norm(y[0]) and equiv(x[1], y[1]) for x, y in zip(sorted(p, key=lambda t: norm(t[0])), sorted(q, key=lambda t: norm(t[0])))):
                        del rest[j]
                        break
                else:
                    return '%s loop %r: packet %r has no equivalent among those read back %r' % (path, k, p, rest[:3])
        for f in a['frames']:
            r = cmp_c(a['frames'][f], b['frames'][f], path + '/' + f)
            if r:
                return r
        return None
    ca = {b['code']: canon_container(b) for b in orig['blocks']}
    cb = {b['code']: canon_container(b) for b in back['blocks']}
    if sorted(ca) != sorted(cb):
        return 'data blocks %r vs %r' % (sorted(ca), sorted(cb))
    for code in ca:
        r = cmp_c(ca[code], cb[code], code)
        if r:
            return r
    return None


# ---------- one round trip ----------
def roundtrip(ex, build_lines, version, nested=False):
    """returns dict with write rc, output checks, parse result, dumps"""
    popt = 'p2=-1 fold=1 prefix=1' if version == 1 else ''
    if nested:
        popt += ' depth=-1'
    # the same CIF written again must give the same bytes (nothing of one cif_write may carry over into the next); so must, for
    # CIF 2.0, the two documented ways of asking for the default: cif_version 0 in the options, and no options at all
    again = ['write C0 B2 v=%d' % version, 'bytes.eq B0 B2']
    if version != 1:
        again += ['write C0 B2 v=0', 'bytes.eq B0 B2', 'write C0 B2 opts=null', 'bytes.eq B0 B2']
    a = ex.run(['reset'] + build_lines + ['write C0 B0 v=%d' % version, 'bytes.check B0', 'parse new:C1 B0 %s' % popt, 'dump C0', 'dump C1'] + again)
    n = 1 + len(build_lines)
    bad = [x for x in a[1:n] if not isinstance(x, dict) or x.get('rc', 0) != 0]
    labels = ['written a second time', 'written with cif_version 0 (default) in the options', 'written with NULL options']
    same = [(labels[i], a[n + 5 + 2 * i], a[n + 6 + 2 * i]) for i in range(len(again) // 2)]
    return {'build_errors': bad[:3], 'write': a[n], 'check': a[n + 1], 'parse': a[n + 2], 'orig': a[n + 3], 'back': a[n + 4], 'same': same}


def judge(res, version, may_refuse=None):
    """may_refuse: set of refusal codes that are admissible for this CIF (from the oracle), or None for 'must succeed'"""
    if res['build_errors']:
        return 'driver', 'could not build the CIF: %r' % (res['build_errors'],)
    w = res['write']
    if not isinstance(w, dict):
        return 'driver', 'bad answer %r' % (w,)
    if w['rc'] != OK:
        if may_refuse and w['rc'] in may_refuse:
            return None, 'refused'
        return 'refused', 'cif_write returned %d for a CIF it must be able to write%s' % (w['rc'], '' if not may_refuse else ' (admissible refusals: %r)' % sorted(may_refuse))
    for label, w2, eq in res.get('same', []):
        if not isinstance(w2, dict) or w2.get('rc') != OK or not isinstance(eq, dict) or not eq.get('equal'):
            return 'repeat', 'the same CIF %s: cif_write answered %r and the output is %s' % (label, w2.get('rc') if isinstance(w2, dict) else w2, 'different' if isinstance(eq, dict) else eq)
    c = res['check']
    if c['magic'] != (2 if version != 1 else 1):
        return 'format', 'output does not start with the CIF %s version comment' % ('2.0' if version != 1 else '1.1')
    if not c['utf8']:
        return 'format', 'output is not valid UTF-8'
    if c['maxline'] > 2048:
        return 'format', 'output has a line of %d characters' % c['maxline']
    if version == 1 and not c['cif11chars']:
        return 'format', 'CIF 1.1 output contains characters outside the CIF 1.1 set'
    p = res['parse']
    if not isinstance(p, dict) or p['rc'] != 0 or p['nerr']:
        return 'reparse', 're-parsing the output reported %r' % ({'rc': p.get('rc'), 'errs': p.get('errs')[:4]} if isinstance(p, dict) else p)
    d = compare_cifs(res['orig'], res['back'])
    if d:
        return 'content', 're-parsed CIF differs: ' + d
    return None, 'ok'
