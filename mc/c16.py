#!/usr/bin/python3
"""C16: no leaks, no out-of-bounds access, no undefined behaviour, no lasting global side effects.
Not a separate input space: bounded explorations of the other properties are re-run in the clang ASan/UBSan build with
an allocation ledger and process-state audit after every script (mc/lib.py: Exec._audit), every execution judged by the
sanitizers; plus an exhaustive grid of the number functions x numeric locale x rounding mode."""
import sys, os, subprocess, json, re, time
sys.path.insert(0, os.path.dirname(os.path.abspath(__file__)))
from lib import *

PY = '/usr/bin/python3'
HERE = os.path.dirname(os.path.abspath(__file__))

# sub-exploration -> environment knobs (quick, thorough)
SUBS = [
    ('C04', {'C04_DEPTHS': '3,2,2,2,2'}, {'C04_DEPTHS': '4,3,3,3,3'}),
    ('C05', {'C05_DEPTH': '1'}, {'C05_DEPTH': '2'}),
    ('C06', {'C06_DEPTH': '5'}, {'C06_DEPTH': '7'}),
    ('C07', {}, {}),
    ('C19', {'C19_DEPTH': '4'}, {'C19_DEPTH': '5'}),
    ('C14', {'C14_BOUND': '2'}, {'C14_BOUND': '3'}),
    ('C15', {'C15_BOUND': '2'}, {'C15_BOUND': '3'}),
    ('C02', {'RT_L': '3'}, {'RT_L': '4'}),
    ('C13', {'RT_L': '3'}, {'RT_L': '4'}),
    ('C12', {}, {}),
    ('C08', {'C08_PROBES': '12'}, {}),
    ('C11', {}, {}),
    ('C18', {'INPROC_TIER': 'quick'}, {'INPROC_TIER': 'quick'}),
    ('C10', {'INPROC_TIER': 'quick'}, {'INPROC_TIER': 'quick'}),
    ('C09', {'INPROC_TIER': 'quick', 'NORM_LIGHT': '1'}, {'INPROC_TIER': 'quick'}),
    ('C01', {'C01_LIGHT': '1'}, {}),
]


def run_sub(pid, knobs, budget):
    env = dict(os.environ)
    env.update({'VERIF_EXEC_CFG': 'san', 'VERIF_AUDIT': '1', 'VERIF_NO_EVIDENCE': '1', 'VERIF_REPLAY_DIR': 'C16'})
    env.update(SAN_ENV)
    env.update(knobs)
    t0 = time.time()
    try:
        r = subprocess.run([PY, os.path.join(HERE, pid.lower() + '.py'), 'quick'], env=env, stdout=subprocess.PIPE, stderr=subprocess.STDOUT, text=True, timeout=budget)
        out, rc = r.stdout, r.returncode
    except subprocess.TimeoutExpired as e:
        out, rc = (e.stdout or b'').decode() if isinstance(e.stdout, bytes) else (e.stdout or ''), -9
    return out, rc, time.time() - t0


def global_state(rep):
    """number formatting / parsing in every rounding mode with a non-"C" numeric locale: the process state must be left as found"""
    ex = Exec(exe('san'))
    n = 0
    vals = [('12.5', '0.25', 2), ('-0.000123', '0.000004', 7), ('9.995e20', '0', -18), ('0.1', '0', 3), ('7e22', '1e21', -21)]
    for loc in ('C', 'C.utf8'):
        for rm in range(4):
            for val, su, scale in vals:
                for op in ('val.initnumb V0 %s %s %d 5' % (val, su, scale), 'val.autoinit V0 %s %s 19' % (val, su if su != '0' else '0.5'),
                           'val.parsenumb V0 %s' % U('1.5(3)'), 'val.getnum V0', 'item.set H0 %s V0' % U('_n'), 'write C0 B0', 'parse new:C1 B0', 'write C0 B1 v=1'):
                    try:
                        a = ex.run(['reset', 'setlocale %s' % loc, 'setround %d' % rm, 'env', 'cif.new C0', 'blk.create C0 %s H0' % U('b'), 'val.create V0 5',
                                    'val.parsenumb V0 %s' % U('2.50(5)'), op, 'env', 'setround 0', 'reset'])
                    except Crash as c:
                        rep.violation({'family': 'global-state', 'kind': 'sanitizer'}, {'locale': loc, 'rounding': rm, 'op': op, 'report': '%s\n%s' % (c, c.stderr[-3000:])})
                        ex = Exec(exe('san'))
                        continue
                    n += 1
                    before, after = a[3], a[-3]
                    if (before['locale'], before['round']) != (after['locale'], after['round']):
                        rep.violation({'family': 'global-state', 'kind': 'process state changed', 'op': op.split()[0]},
                                      {'locale': loc, 'rounding_mode': rm, 'op': op, 'before': before, 'after': after,
                                       'message': '%s left LC_NUMERIC = %r, rounding mode = %r (before: %r, %r)' % (op.split()[0], after['locale'], after['round'], before['locale'], before['round'])})
    rc, err = ex.stop()
    if rc != 0 and 'LeakSanitizer' in err:
        rep.violation({'family': 'global-state', 'kind': 'leak'}, {'report': err[-3000:]})
    return n


def main():
    tier = sys.argv[1] if len(sys.argv) > 1 else 'quick'
    rep = Report('C16', tier, 'exploration')
    total, per = 0, {}
    budget = 900 if tier == 'quick' else 3600
    for pid, kq, kt in SUBS:
        out, rc, dt = run_sub(pid, kq if tier == 'quick' else kt, budget)
        last = [l for l in out.strip().split('\n') if l.startswith(pid + ' quick:')]
        stats = {}
        m = re.search(r'\{.*\}\s*$', last[-1]) if last else None
        if m:
            try:
                stats = json.loads(m.group(0))
            except ValueError:
                pass
        evals = stats.get('transitions') or stats.get('evaluations') or stats.get('states') or 0
        total += evals
        per[pid] = {'executions': evals, 'wall_s': round(dt, 1), 'exit': rc}
        if rc == -9:
            rep.violation({'sub': pid, 'kind': 'timeout'}, {'tail': out[-1500:]})
        for mm in re.finditer(r'VIOLATION property=%s replay=(\S+)\n\s+signature: (.*?)\s+\((\d+) cases\)' % pid, out):
            path, sig, cnt = mm.group(1), mm.group(2), int(mm.group(3))
            try:
                detail = json.load(open(path))
            except Exception:
                detail = {'replay': path}
            text = json.dumps(detail)
            kind = 'sanitizer report' if ('Sanitizer' in text or 'runtime error' in text) else ('ledger / process state' if 'audit:' in text else ('crash' if 'executor died' in text or 'crash' in text else 'behaviour differs in the sanitizer build'))
            rep.violation({'sub': pid, 'kind': kind, 'signature': sig[:160]}, {'sub_check': pid, 'cases': cnt, 'detail': detail})
        if rc not in (0, 1, -9):
            rep.violation({'sub': pid, 'kind': 'sub-run failed'}, {'exit': rc, 'tail': out[-2000:]})
        print('  %s (san + audit): %s' % (pid, per[pid]), flush=True)
    n = global_state(rep)
    total += n
    per['global-state'] = {'executions': n}
    return rep.finish({'evaluations': total, 'distinct_nontrivial': sum(1 for v in per.values() if v.get('executions')),
                       'rule': 'bounded explorations of C01, C02, C04-C15, C18, C19 re-run in the clang -fsanitize=address,undefined build with, after every script, a reset followed by a comparison of the allocation ledger '
                               '(wrapped malloc/calloc/realloc/strdup/free of the library, uthash and harness), LC_NUMERIC and the rounding mode with their initial values (process locale C.utf8), LeakSanitizer at executor exit; '
                               'plus number formatting / parsing / writing in 4 rounding modes x 2 locales. evaluations = executions judged; non-trivial = sub-explorations that executed',
                       'samples': [{'sub': k, **v} for k, v in list(per.items())[:4]], 'sub_explorations': per, 'exhaustive': True},
                      ['documented preconditions are respected by the drivers (live handles, container handles outlive loop handles derived from them)',
                       'allocations inside SQLite and ICU are covered by LeakSanitizer only'])


if __name__ == '__main__':
    sys.exit(main())
