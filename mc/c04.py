#!/usr/bin/python3
"""C04: the managed CIF behaves as the documented data model under any API history.
Explicit-state BFS over histories of real API calls in several small, colliding universes."""
import sys, os
sys.path.insert(0, os.path.dirname(os.path.abspath(__file__)))
from lib import *
from explore import *
from apiops import *

E_ACUTE, E_COMB = "\u00e9", "e\u0301"


class U1(Universe):
    """containers: two CIFs, case / normalisation variants of codes, nested frames, destroy, handles"""
    name = 'U1-containers'

    def setup(self):
        return [simple_new(0), simple_new(1)]

    def ops(self, m):
        o = []
        for code in ['b', 'B', E_ACUTE, E_COMB, 'c']:
            o.append(BlkCreate(0, code, 'H0'))
        o += [BlkCreate(0, 'b', None), BlkCreate(0, '', None), BlkCreate(0, 'b c', None), BlkCreate(0, None, None),
              BlkCreate(1, 'b', 'H1'), BlkCreate(1, 'c', 'H1')]
        for code in ['b', 'B', E_COMB, 'c', '']:
            o.append(BlkGet(0, code, 'H0'))
        o += [BlkGet(1, 'b', 'H1'), BlkGet(0, 'b', 'H3'), ParseInto(0, 'containers'), ParseInto(1, 'containers')]
        for hp in ['H0', 'H2']:
            if m.h_live(hp):
                for code in ['s', 'S', 'b', '', 's\t']:
                    o.append(FrmCreate(hp, code, 'H2' if code in ('s', 'b') else None))
                for code in ['s', 'S', 'x', '']:
                    o.append(FrmGet(hp, code, 'H2'))
        for h in ['H0', 'H1', 'H2', 'H3']:
            if h in m.H:
                if m.h_live(h):
                    o.append(ContCode(h))
                    o.append(ContFree(h))
                # destroying through a handle whose container is already gone must answer CIF_INVALID_HANDLE
                o.append(ContDestroy(h))
        return o


def simple_new(ci):
    return CifNew(ci)



NAMES_A = [('_a',), ('_b',), ('_a', '_b'), ('_A',), ('_a', '_A'), ('a',), ('_c', '_a'), ('_c', '_d', '_c')]


class U2(Universe):
    """loops and items in a block H0 and its frame H1 (which reuses the names)"""
    name = 'U2-loops'

    def setup(self):
        return [CifNew(0), BlkCreate(0, 'b', 'H0'), FrmCreate('H0', 's', 'H1')]

    def ops(self, m):
        o = []
        for cat in [None, '', 'x']:
            for names in NAMES_A:
                o.append(LoopCreate('H0', cat, names, 'L0'))
        o += [LoopCreate('H0', None, ('_b',), 'L1'), LoopCreate('H0', 'x', ('_c',), 'L1'), LoopCreate('H0', 'x', (), None),
              LoopCreate('H0', 'x', None, None), LoopCreate('H1', '', ('_a',), 'L1'), LoopCreate('H1', None, ('_a', '_b'), 'L1'),
              LoopCreate('H0', '', ('_e',), None)]
        for cat in [None, '', 'x', 'y']:
            o.append(LoopGetCat('H0', cat, 'L0'))
        o.append(LoopGetCat('H1', '', 'L1'))
        for name in ['_a', '_A', '_b', '_c', 'a', '_']:
            o.append(LoopGetItem('H0', name, 'L0'))
        o.append(LoopGetItem('H1', '_a', 'L1'))
        for l in ['L0', 'L1']:
            if l in m.L and m.l_live(l):
                for cat in [None, '', 'x', 'y']:
                    o.append(LoopSetCat(l, cat))
                for name, v in [('_a', 'V1'), ('_B', None), ('_c', 'V2'), ('c', 'V1'), ('c', None)]:
                    o.append(LoopAddItem(l, name, v))
                o.append(LoopDestroy(l))
                o.append(LoopInfo(l))
                for pkt in [(('_a', 'V1'),), (('_a', 'V1'), ('_b', 'V2')), (), (('_c', 'V1'),), (('_A', 'V2'),), (('_b', 'V3'), ('_zz', 'V1'))]:
                    o.append(LoopAddPkt(l, pkt))
            elif l in m.L:
                for what in ['destroy', 'itr', 'additem', 'addpkt']:
                    o.append(StaleLoopCall(l, what))
        o.append(ParseInto(0, 'items'))
        for h in ['H0', 'H1']:
            for name in ['_a', '_A', '_b', '_c', 'a']:
                o.append(ItemRemove(h, name))
            o.append(ContPrune(h))
            for name, v in [('_a', 'V1'), ('_b', 'V2'), ('_d', None), ('d', 'V1'), ('_A', 'V3')]:
                o.append(ItemSet(h, name, v))
            for name in ['_a', '_b', '_d', '_A', 'x']:
                o.append(ItemGet(h, name))
        return o


class U3(Universe):
    """packets: a block that already holds a two-item loop with two packets, a one-item loop and a scalar"""
    name = 'U3-packets'

    def setup(self):
        return [CifNew(0), BlkCreate(0, 'b', 'H0'),
                LoopCreate('H0', 'x', ('_a', '_b'), 'L0'), LoopAddPkt('L0', (('_a', 'V1'), ('_b', 'V2'))),
                LoopAddPkt('L0', (('_a', 'V2'),)),
                LoopCreate('H0', None, ('_c',), 'L1'), ItemSet('H0', '_s', 'V1'), LoopGetCat('H0', '', 'L2')]

    def ops(self, m):
        o = []
        for l in ['L0', 'L1', 'L2']:
            if l in m.L and m.l_live(l):
                ci, c, lp = m.L[l]
                for pkt in [(('_a', 'V1'),), (('_a', 'V3'), ('_b', 'V2')), (('_c', 'V1'),), (('_s', 'V2'),), (),
                            (('_A', 'V2'), ('_a', 'V1')), (('_b', None),), (('_c', 'V1'), ('_a', 'V1'))]:
                    o.append(LoopAddPkt(l, pkt))
                for name, v in [('_d', 'V1'), ('_a', None), ('_D', None)]:
                    o.append(LoopAddItem(l, name, v))
                o.append(LoopDestroy(l))
                o.append(LoopInfo(l))
                for cat in [None, '', 'y']:
                    o.append(LoopSetCat(l, cat))
                n = len(lp.packets)
                for k in range(min(n, 3)):
                    for fin in ['close', 'abort']:
                        o.append(IterEdit(l, k, 'remove', (), fin))
                    o.append(IterEdit(l, k, 'remove+update', (('_a', 'V3'),), 'close'))
                    o.append(IterEdit(l, k, 'remove+remove', (), 'close'))
                    o.append(IterEdit(l, k, 'update', (('_a', 'V3'),), 'close'))
                    o.append(IterEdit(l, k, 'update+second', (('_a', 'V2'),), 'close'))
                    o.append(IterEdit(l, k, 'update', (('_c', 'NA'),), 'close'))
                    o.append(IterEdit(l, k, 'update', (('_s', 'V2'), ('_zz', 'V1')), 'close'))
                if n == 0:
                    o.append(IterEdit(l, 0, 'none', (), 'close'))
            elif l in m.L:
                for what in ['destroy', 'itr', 'additem', 'addpkt']:
                    o.append(StaleLoopCall(l, what))
        for name, v in [('_a', 'V3'), ('_c', 'V1'), ('_s', 'V2'), ('_n', 'V2'), ('_S', None)]:
            o.append(ItemSet('H0', name, v))
        for name in ['_a', '_b', '_c', '_s', '_d']:
            o.append(ItemRemove('H0', name))
            o.append(ItemGet('H0', name))
        o.append(ContPrune('H0'))
        o += [LoopGetItem('H0', '_a', 'L0'), LoopGetItem('H0', '_c', 'L1'), LoopGetItem('H0', '_s', 'L2'), LoopGetCat('H0', '', 'L2'),
              LoopCreate('H0', None, ('_c',), 'L1'), LoopCreate('H0', 'x', ('_a', '_b'), 'L0'), LoopCreate('H0', '', ('_s',), 'L2')]
        return o


class U4(Universe):
    """destroy: block with two frames that share item names, a nested frame, loops everywhere"""
    name = 'U4-destroy'

    def setup(self):
        return [CifNew(0), CifNew(1), BlkCreate(0, 'b', 'H0'), FrmCreate('H0', 'f', 'H1'), FrmCreate('H0', 'g', 'H2'),
                FrmCreate('H1', 'n', 'H3'), BlkCreate(1, 'b', 'H4'),
                ItemSet('H0', '_a', 'V1'), ItemSet('H1', '_a', 'V2'), ItemSet('H2', '_a', 'V3'), ItemSet('H3', '_a', 'V1'),
                ItemSet('H4', '_a', 'V2'),
                LoopCreate('H1', 'x', ('_p', '_q'), None), LoopCreate('H2', 'x', ('_p', '_q'), None), LoopCreate('H3', 'x', ('_p',), None)]

    def ops(self, m):
        o = []
        for h in ['H0', 'H1', 'H2', 'H3', 'H4']:
            if h in m.H and m.h_live(h):
                o += [ContDestroy(h), ItemRemove(h, '_a'), ItemRemove(h, '_p'), ItemSet(h, '_a', 'NA'), ContPrune(h),
                      ItemGet(h, '_a'), LoopGetItem(h, '_p', 'L0'), ContCode(h)]
                if h != 'H4':
                    o += [FrmCreate(h, 'f', None), FrmGet(h, 'f', 'H5')]
            elif h in m.H:
                o.append(ContDestroy(h))
        if 'L0' in m.L and m.l_live('L0'):
            o += [LoopDestroy('L0'), LoopAddPkt('L0', (('_p', 'V1'),)), LoopAddItem('L0', '_a', 'V1'), LoopAddItem('L0', '_r', 'V1')]
        o += [BlkGet(0, 'b', 'H0'), FrmGet('H0', 'f', 'H1') if m.h_live('H0') else BlkGet(0, 'b', 'H0'), BlkCreate(0, 'b', 'H0'),
              BlkCreate(1, 'c', None)]
        return o


class U5(Universe):
    """the same data names in a block, its frame and a second block: what one container stores must not depend on the others"""
    name = 'U5-shared-names'

    def setup(self):
        return [CifNew(0), BlkCreate(0, 'b', 'H0'), FrmCreate('H0', 's', 'H1'), BlkCreate(0, 'c', 'H2'),
                LoopCreate('H0', None, ('_a', '_b'), 'L0'), LoopAddPkt('L0', (('_a', 'V1'), ('_b', 'V2'))),
                LoopCreate('H1', None, ('_a', '_b'), 'L1'), LoopCreate('H2', 'x', ('_a', '_b'), 'L2')]

    def ops(self, m):
        o = []
        for l in ['L0', 'L1', 'L2']:
            if l in m.L and m.l_live(l):
                for pkt in [(('_a', 'V3'),), (('_b', 'V1'),), (('_a', 'V2'), ('_b', 'NA'))]:
                    o.append(LoopAddPkt(l, pkt))
                o.append(LoopInfo(l))
                n = len(m.L[l][2].packets)
                for k in range(min(n, 2)):
                    o.append(IterEdit(l, k, 'remove', (), 'close'))
                    o.append(IterEdit(l, k, 'update', (('_b', 'V3'),), 'close'))
                o.append(LoopAddItem(l, '_c', 'V1'))
            elif l in m.L:
                o.append(StaleLoopCall(l, 'addpkt'))
        for h in ['H0', 'H1', 'H2']:
            if m.h_live(h):
                for name in ['_a', '_b']:
                    o.append(ItemGet(h, name))
                    o.append(ItemRemove(h, name))
                o.append(ItemSet(h, '_a', 'V3'))
                o.append(ContPrune(h))
        o.append(ParseInto(0, 'items'))
        return o


class U6(Universe):
    """limits: codes of 2043 / 2044 and data names of 2048 / 2049 characters, and names whose UTF-16 form is longer than their
    character count (the limits are in characters): the longest admissible ones behave like any other, the next longer are refused"""
    name = 'U6-limits'
    C43, C44 = 'b' * 2043, 'b' * 2044
    N48, N49 = '_' + 'a' * 2047, '_' + 'a' * 2048
    NS, CS = '_' + '\U00010400' * 1100, '\U00010428' * 1100
    NS48, NS49 = '_' + '\U00010400' * 2047, '_' + '\U00010400' * 2048

    def setup(self):
        return [CifNew(0), BlkCreate(0, 'b', 'H0')]

    def ops(self, m):
        o = []
        for code in [self.C43, self.C44, self.CS, self.C43.upper()]:
            o += [BlkCreate(0, code, 'H1'), BlkGet(0, code, 'H1'), FrmCreate('H0', code, 'H2'), FrmGet('H0', code, 'H2')]
        for h in ['H0', 'H1', 'H2']:
            if h in m.H and m.h_live(h):
                for name in [self.N48, self.N49, self.NS, self.NS48, self.NS49, self.N48.upper()]:
                    o += [ItemSet(h, name, 'V1'), ItemGet(h, name), ItemRemove(h, name), LoopGetItem(h, name, 'L0')]
                o += [LoopCreate(h, None, (self.N48, self.NS), 'L0'), LoopCreate(h, None, (self.N49,), 'L0'), LoopCreate(h, None, (self.NS48, '_x'), 'L0'), ContCode(h)]
        if 'L0' in m.L and m.l_live('L0'):
            o += [LoopAddPkt('L0', ((self.N48, 'V2'),)), LoopAddPkt('L0', ((self.NS, 'V2'), (self.N48.upper(), 'V3'))),
                  LoopAddItem('L0', self.NS48, 'V1'), LoopAddItem('L0', self.NS49, 'V1'), LoopInfo('L0')]
        return o


UNIVERSES = [(U1, 4, 6), (U2, 3, 4), (U3, 3, 4), (U4, 3, 5), (U5, 3, 4), (U6, 3, 4)]


def main():
    tier = sys.argv[1] if len(sys.argv) > 1 else 'quick'
    rep = Report('C04', tier, 'model_checking')
    dl = deadline(tier, 900, 1500)
    tot = {'states': 0, 'transitions': 0}
    per = {}
    samples = []
    exhaustive = True
    only = os.environ.get('C04_ONLY')
    override = [int(x) for x in os.environ.get('C04_DEPTHS', '').split(',') if x]
    for ui, (cls, dq, dt) in enumerate(UNIVERSES):
        u = cls()
        if only and only not in u.name:
            continue
        d = dq if tier == 'quick' else dt
        if override:
            d = override[ui] if ui < len(override) else override[-1]
        st = bfs(u, d, rep, dl)
        per[u.name] = {'states': st['states'], 'transitions': st['transitions'], 'depth_bound': d,
                       'depth_completed': st['depth_completed'], 'exhaustive_to_bound': st['exhaustive'] and st['depth_completed'] == d or st['frontier_left'] == 0}
        tot['states'] += st['states']
        tot['transitions'] += st['transitions']
        samples += st['samples'][:2]
        if not per[u.name]['exhaustive_to_bound']:
            exhaustive = False
        print('  %s: %s' % (u.name, per[u.name]), flush=True)
    return rep.finish({'states': tot['states'], 'transitions': tot['transitions'],
                       'traces_validated_against_impl': tot['transitions'], 'samples': samples or [['(none)']],
                       'universes': per, 'exhaustive': exhaustive,
                       'explanation': 'every transition is a replay of the history on the real library followed by a full API dump and raw table dump, compared with the Python data model'},
                      ['reference model mc/model.py (DESIGN.md Appendix A); value alphabet V1,V2,V3,NA; handles used only while live, '
                       'container handles outlive loop handles derived from them'])


if __name__ == '__main__':
    sys.exit(main())
