"""CIF document ASTs and an independent text generator (AST -> CIF 2.0 / CIF 1.1 text), written from the grammars and
never using the library's writer.  Because text is generated from the AST the denotation is known by construction.

AST:  doc = [block];  block = ('block', code, [element]);  element = ('item', name, value) | ('loop', [name], [[value]])
      | ('frame', code, [element]);   value = ('char', text, quoted) | ('unk',) | ('na',) | ('list', [value]) |
      ('table', [(key, value)])
A presentation of a value is chosen by the caller (see present()); `auto` picks the simplest admissible one."""
import re

RESERVED_RE = re.compile(r'^(data_.*|save_.*|loop_|stop_|global_)$', re.I)


def C(text, quoted=None):
    """char value; quoted=None: quoted iff it cannot be presented bare"""
    return ('char', text, quoted)


UNK = ('unk',)
NA = ('na',)


def L(*vals):
    return ('list', list(vals))


def T(*pairs):
    return ('table', list(pairs))


def bare_ok(text, cif2=True):
    """can `text` be presented as a whitespace-delimited value (independent transcription of the grammar)?"""
    if text == '' or text in ('?', '.'):
        return False
    if any(ord(c) <= 0x20 or ord(c) == 0x7f for c in text):
        return False
    if text[0] in '\'"_#$;[]{}' if cif2 else text[0] in '\'"_#$;[]':
        return False
    if cif2 and any(c in '[]{}' for c in text):
        return False
    if RESERVED_RE.match(text):
        return False
    return True


def present(v, style='auto', cif2=True):
    """text of one value.  styles: auto, bare, sq, dq, tsq, tdq, text"""
    k = v[0]
    if k == 'unk':
        return '?'
    if k == 'na':
        return '.'
    if k == 'list':
        return '[' + ' '.join(present(e, 'auto', cif2) for e in v[1]) + ']'
    if k == 'table':
        return '{' + ' '.join(present_key(key) + ':' + present(e, 'auto', cif2) for key, e in v[1]) + '}'
    text = v[1]
    if style == 'auto':
        quoted = v[2]
        if quoted is False or (quoted is None and bare_ok(text, cif2)):
            return text
        if '\n' not in text and "'" not in text:
            return "'" + text + "'"
        if '\n' not in text and '"' not in text:
            return '"' + text + '"'
        if cif2 and "'''" not in text and not text.endswith("'"):
            return "'''" + text + "'''"
        if '\n;' not in text:
            return '\n;' + text + '\n;'
        raise ValueError('no simple presentation for %r' % (text,))
    if style == 'bare':
        return text
    if style == 'sq':
        return "'" + text + "'"
    if style == 'dq':
        return '"' + text + '"'
    if style == 'tsq':
        return "'''" + text + "'''"
    if style == 'tdq':
        return '"""' + text + '"""'
    if style == 'text':
        return '\n;' + text + '\n;'
    raise ValueError(style)


def present_key(key):
    if "'" not in key and '\n' not in key:
        return "'" + key + "'"
    if '"' not in key and '\n' not in key:
        return '"' + key + '"'
    return "'''" + key + "'''"


def value_quoted(v, cif2=True):
    """the quoted flag the parser must report for a char value presented by present(v,'auto')"""
    if v[2] is None:
        return 0 if bare_ok(v[1], cif2) else 1
    return 1 if v[2] else 0


def expected_dump(v, cif2=True):
    k = v[0]
    if k == 'unk':
        return {'k': 'unk'}
    if k == 'na':
        return {'k': 'na'}
    if k == 'list':
        return {'k': 'list', 'e': [expected_dump(e, cif2) for e in v[1]]}
    if k == 'table':
        return {'k': 'table', 'i': [[key, expected_dump(e, cif2)] for key, e in v[1]]}
    return {'k': 'char', 't': v[1], 'q': value_quoted(v, cif2)}


def render(doc, cif2=True, header=True, comments=False, sep=' ', eol='\n'):
    out = []
    if header:
        out.append('#\\#CIF_2.0' if cif2 else '#\\#CIF_1.1')
    if comments:
        out.append('# a comment before the first block')

    def elements(els, indent):
        for el in els:
            if el[0] == 'item':
                out.append(indent + el[1] + sep + present(el[2], 'auto', cif2) + ('  # trailing comment' if comments else ''))
            elif el[0] == 'loop':
                out.append(indent + 'loop_')
                for n in el[1]:
                    out.append(indent + ' ' + n)
                for p in el[2]:
                    out.append(indent + ' ' + sep.join(present(v, 'auto', cif2) for v in p))
                if comments:
                    out.append('#end of loop')
            elif el[0] == 'frame':
                out.append(indent + 'save_' + el[1])
                elements(el[2], indent + '  ')
                out.append(indent + 'save_')
    for b in doc:
        out.append('data_' + b[1])
        elements(b[2], '')
    return eol.join(out) + eol
