"""Breadth-first explicit-state exploration of API histories: every transition calls the real library (through cifx),
the reference model is stepped in lock-step and compared after every transition; states are deduplicated on a
canonical form of the *real* state (raw tables + handle slots)."""
import json, sys, time
from lib import *
from model import *
import apiops


def raw_canon(raw):
    """canonical form of the white-box table dump: container ids -> code paths, loop numbers -> name sets"""
    path = {}
    for cid, name, orig in raw['data_block']:
        path[cid] = (name,)
    pend = list(raw['save_frame'])
    for _ in range(len(pend) + 1):
        for cid, parent, name, orig in pend:
            if parent in path and cid not in path:
                path[cid] = path[parent] + (name,)
    names = {}
    for cid, name, orig, ln in raw['loop_item']:
        names.setdefault((cid, ln), []).append(name)
    out = []
    out.append(tuple(sorted((path.get(c[0], ('?', c[0])), c[2]) for c in raw['data_block'])))
    out.append(tuple(sorted((path.get(c[0], ('?', c[0])), c[3]) for c in raw['save_frame'])))
    out.append(tuple(sorted(((path.get(cid, ('?', cid)), tuple(sorted(names.get((cid, ln), []))), cat, last)
                             for cid, ln, cat, last in raw['loop']), key=repr)))
    out.append(tuple(sorted(((path.get(c[0], ('?', c[0])), c[1], c[2]) for c in raw['loop_item']), key=repr)))
    out.append(tuple(sorted(((path.get(c[0], ('?', c[0])),) + tuple(c[1:]) for c in raw['item_value']), key=repr)))
    # orphan containers (no block / frame row) are hidden residue worth seeing
    out.append(tuple(sorted(1 for c in raw['container'] if c[0] not in path)))
    return tuple(out)


def raw_invariants(raw, in_tx=False):
    bad = []
    if raw.get('autocommit') != (0 if in_tx else 1):
        bad.append('autocommit is %r after the call (%s)' % (raw.get('autocommit'), 'an iterator is open' if in_tx else 'no transaction should be open'))
    sc = {}
    for cid, ln, cat, last in raw['loop']:
        if cat == '':
            sc[cid] = sc.get(cid, 0) + 1
            if last is not None and last > 1:
                bad.append('scalar loop with last_row_num %r' % last)
    if any(v > 1 for v in sc.values()):
        bad.append('two scalar loops in one container')
    seen = set()
    for cid, name, orig, ln in raw['loop_item']:
        if (cid, name) in seen:
            bad.append('item twice')
        seen.add((cid, name))
    conts = set(c[0] for c in raw['container'])
    named = set(c[0] for c in raw['data_block']) | set(c[0] for c in raw['save_frame'])
    # container rows of frames whose parent was destroyed stay behind (unreachable through the API): hidden residue that
    # is part of the state key, not a violation
    if named - conts:
        bad.append('block/frame rows without container row: %r' % sorted(named - conts))
    loops = set((c[0], c[1]) for c in raw['loop'])
    for cid, name, orig, ln in raw['loop_item']:
        if (cid, ln) not in loops:
            bad.append('loop_item without loop')
    for r in raw['item_value']:
        if (r[0], r[1]) not in seen:
            bad.append('item_value without loop_item')
    # every packet (row) of a loop holds a value - at least the explicit unknown one - for every item of the loop
    items_of = {}
    for cid, name, orig, ln in raw['loop_item']:
        items_of.setdefault((cid, ln), set()).add(name)
    loop_of = {(cid, name): ln for cid, name, orig, ln in raw['loop_item']}
    rows = {}
    for r in raw['item_value']:
        k = (r[0], loop_of.get((r[0], r[1])))
        rows.setdefault((k, r[2]), set()).add(r[1])
    for (k, row), names in rows.items():
        if k in items_of and names != items_of[k]:
            bad.append('packet %r of loop %r stores values for %r only (items: %r)' % (row, k, sorted(names), sorted(items_of[k])))
            break
    return bad


def slot_state(m):
    def cpath(ci, cont):
        cif = m.cifs.get(ci)
        if cif is None:
            return None

        def walk(mp, pre):
            for k, v in mp.items():
                if v is cont:
                    return pre + (k,)
                r = walk(v.frames, pre + (k,))
                if r:
                    return r
            return None
        return walk(cif.blocks, (ci,))
    hs = []
    for h in sorted(m.H):
        ci, cont = m.H[h]
        hs.append((h, cpath(ci, cont) or 'stale'))
    ls = []
    for l in sorted(m.L):
        ci, cont, lp = m.L[l]
        p = cpath(ci, cont)
        live = p is not None and any(x is lp for x in cont.loops)
        ls.append((l, (p, tuple(sorted(lp.names))) if live else 'stale'))
    its = []
    for i in sorted(getattr(m, 'I', {})):
        it = m.I[i]
        its.append((i, tuple(sorted(repr(sorted(p.items())) for p in it.pending)), repr(sorted(it.current.items())) if it.current is not None else None,
                    it.finished, tuple(sorted(repr(sorted(p.items())) for p in it.snapshot)), tuple(sorted(getattr(it, 'refusals', ())))))
    return (tuple(hs), tuple(ls), tuple(its))


class Universe:
    name = 'U'
    ncifs = 1

    def setup(self):
        return []

    def ops(self, m):
        return []


def replay(ex, uni, hist, op=None, observe=True):
    """run setup + hist (+ op) on a reset executor and the model in lock-step.
    returns (model, problems of the last op, key or None, observations)"""
    m = Model()
    lines = ['reset']
    seq = list(uni.setup()) + list(hist) + ([op] if op is not None else [])
    spans = []
    for o in seq:
        ls = o.lines()
        spans.append((len(lines), len(lines) + len(ls)))
        lines += ls
    ans = ex.run(lines)
    problems = []
    for i, o in enumerate(seq):
        a, b = spans[i]
        p = o.step(m, ans[a:b])
        dropped = m.drop_valueless_all() if getattr(uni, 'sparse_drop', False) else 0
        if i == len(seq) - 1:
            problems = [('rc', x) for x in p]
            if dropped:
                # known divergence class (see known_findings.json F-C04-2): the model follows the implementation, the
                # transition is reported under its own narrow kind so that any other mismatch still alarms
                problems.append(('sparse-packet-dropped', '%d packet(s) that store no value for any remaining item disappeared '
                                 'although cif.h says unspecified items get the explicit unknown value' % dropped))
        elif p and i >= len(uni.setup()):
            # a prefix that already disagreed with the model: was reported at its own transition
            return m, [], None, None
        elif p:
            return m, [('setup', x) for x in p], None, None
    if not observe:
        return m, problems, None, ans
    obs_lines = []
    open_cifs = set(it.loopref[0] for it in getattr(m, 'I', {}).values())
    for ci in sorted(m.cifs):
        # while an iterator is open the public API cannot iterate (its transaction is in progress): raw tables only
        obs_lines += ['rawdump C%d' % ci if ci in open_cifs else 'dump C%d' % ci, 'rawdump C%d' % ci, 'autocommit C%d' % ci]
    obs = ex.run(obs_lines)
    key = []
    for j, ci in enumerate(sorted(m.cifs)):
        d, raw, ac = obs[3 * j], obs[3 * j + 1], obs[3 * j + 2]
        if not isinstance(d, dict) or not isinstance(raw, dict):
            problems.append(('dump', 'dump failed: %r' % (d,)))
            continue
        # a transaction is open on the CIF exactly while one of its packet iterators is alive
        if isinstance(ac, dict) and ac.get('autocommit') != (0 if ci in open_cifs else 1):
            problems.append(('transaction', 'C%d: %s' % (ci, 'the transaction of the open packet iterator is gone' if ci in open_cifs else 'a transaction is left open although no packet iterator is alive')))
        if ci not in open_cifs:
            got = canon_cif_dump(d)
            exp = canon_cif_model(m.cifs[ci])
            if got != exp:
                problems.append(('dump', 'C%d content differs from the data model\n  impl : %r\n  model: %r' % (ci, got, exp)))
            if '<' in json.dumps(d) and 'rc=' in json.dumps(d):
                problems.append(('dump', 'a query failed while dumping: %s' % json.dumps(d)[:300]))
        for b in raw_invariants(raw, ci in open_cifs):
            problems.append(('invariant', b))
        key.append(raw_canon(raw))
    for b in m.invariants():
        problems.append(('invariant', 'model invariant: ' + b))
    key.append(slot_state(m))
    return m, problems, repr(tuple(key)), obs


def probe_sparse_drop(ex):
    """does the implementation lose a packet once the only items it stores values for are removed? (F-C04-2)"""
    a = ex.run(['reset', 'cif.new C0', 'blk.create C0 a:b H0', 'loop.create H0 - 2 a:_a a:_b L0', 'pkt.create P0 0',
                'pkt.set P0 a:_a ?', 'loop.addpkt L0 P0', 'item.remove H0 a:_a', 'dump C0', 'reset'])
    try:
        return len(a[8]['blocks'][0]['loops'][0]['packets']) == 0
    except Exception:
        return False


def _work(chunk, uni):
    out = []
    for hist in chunk:
        try:
            m, _, _, _ = replay(worker_exec('fast'), uni, hist, None, observe=False)
        except Crash as c:
            out.append((hist, None, None, [('crash', 'executor died while replaying an already explored history: %s\n%s' % (c, c.stderr[-1500:]))], False))
            continue
        ops = uni.ops(m)
        for op in ops:
            try:
                m2, problems, key, obs = replay(worker_exec('fast'), uni, hist, op)
            except Crash as c:
                # crash attributed to this transition; the next replay starts a fresh executor
                out.append((hist, op, None, [('crash', '%s\n%s' % (c, c.stderr[-3000:]))], op.query))
                continue
            out.append((hist, op, key, problems, op.query))
    return out


def bfs(uni, depth, rep, deadline_t, label=None, max_states=None):
    """returns stats dict"""
    label = label or uni.name
    ex = Exec(exe('fast'))
    try:
        uni.sparse_drop = probe_sparse_drop(ex)
        m, problems, key0, _ = replay(ex, uni, [], None)
        ex.run(['reset'])          # (audit mode: judges the set-up script)
    except Crash as c:
        rep.violation({'universe': label, 'op': 'setup', 'kind': 'crash'}, {'problems': ['%s\n%s' % (c, c.stderr[-3000:])], 'script': c.script[-80:]})
        ex.kill()
        return {'states': 0, 'transitions': 0, 'depth_completed': 0, 'exhaustive': False, 'rcs': set(), 'samples': [], 'frontier_left': 0}
    ex.stop()
    if problems:
        rep.violation({'universe': label, 'op': 'setup', 'kind': problems[0][0]}, {'problems': problems})
    seen = {key0}
    frontier = [[]]
    stats = {'states': 1, 'transitions': 0, 'depth_completed': 0, 'exhaustive': True, 'rcs': set(), 'samples': []}
    for d in range(1, depth + 1):
        if not frontier:
            break
        if time.time() > deadline_t:
            stats['exhaustive'] = False
            break
        nxt = []
        chunks = list(chunked(frontier, max(1, min(50, len(frontier) // (NPROC * 4) + 1))))
        aborted = False
        for res in pmap(_work, chunks, (uni,)):
            if isinstance(res, dict):
                rep.violation({'universe': label, 'op': 'executor', 'kind': 'crash' if 'crash' in res else 'exception'}, res)
                continue
            for hist, op, key, problems, isq in res:
                stats['transitions'] += 1
                if problems:
                    blocking = False
                    for kind in sorted(set(k for k, _ in problems)):
                        if rep.violation({'universe': label, 'op': type(op).__name__ if op is not None else 'replay', 'kind': kind},
                                         {'universe': label, 'history': [repr(o) for o in hist], 'op': repr(op),
                                          'problems': [t for k, t in problems if k == kind][:5],
                                          'script': sum([o.lines() for o in list(uni.setup()) + list(hist) + ([op] if op is not None else [])], [])}):
                            blocking = True
                    if blocking:
                        continue
                if key is None or isq:
                    continue
                if key not in seen:
                    seen.add(key)
                    nxt.append(hist + [op])
                    if len(stats['samples']) < 3 and d >= 2:
                        stats['samples'].append([repr(o) for o in hist + [op]])
            if time.time() > deadline_t + 120:
                aborted = True
        stats['states'] = len(seen)
        if aborted:
            stats['exhaustive'] = False
            break
        stats['depth_completed'] = d
        frontier = nxt
        if max_states and len(seen) > max_states:
            stats['exhaustive'] = False
            break
    stats['frontier_left'] = len(frontier)
    return stats
