#!/usr/bin/python3
"""C09: codes, data names and table keys are matched by normalised equivalence; validity rules.
Drives harness/normcheck.c (all Unicode code points + pairs/triples over an ICU-derived interesting set)."""
import sys, os, subprocess
sys.path.insert(0, os.path.dirname(os.path.abspath(__file__)))
from lib import *


def main():
    tier = sys.argv[1] if len(sys.argv) > 1 else 'quick'
    rep = Report('C09', tier, 'exploration')
    e = exe('fast', 'normcheck')
    nw = NPROC
    ptier = 'light' if (os.environ.get('NORM_LIGHT') and 'c09' == 'c09') else os.environ.get('INPROC_TIER', tier)
    procs = [subprocess.Popen([e, ptier, str(nw), str(w)], stdout=subprocess.PIPE, stderr=subprocess.PIPE, text=True) for w in range(nw)]
    fam, ninteresting = {}, 0
    for w, p in enumerate(procs):
        out, err = p.communicate()
        if p.returncode != 0:
            rep.violation({'kind': 'crash'}, {'worker': w, 'returncode': p.returncode, 'tail': out[-1500:], 'stderr': (err or '')[-3000:]})
        for line in out.split('\n'):
            if line.startswith('S '):
                _, f, ev, nt = line.split()
                d = fam.setdefault(f, [0, 0])
                d[0] += int(ev)
                d[1] += int(nt)
            elif line.startswith('I '):
                ninteresting = int(line.split()[1])
            elif line.startswith('V '):
                _, f, msg = line.split(' ', 2)
                rep.violation({'family': f, 'case': msg[:90]}, {'family': f, 'message': msg})
    ev = sum(v[0] for v in fam.values())
    nt = sum(v[1] for v in fam.values())
    return rep.finish({'evaluations': ev, 'distinct_nontrivial': nt,
                       'rule': 'codepoints: EVERY Unicode code point c (incl. lone surrogates) as data name "_x"+c (cif_packet_create), block and frame code "x"+c through the storage layer '
                               'table key c, each against an independently written validity predicate; '
                               'cif_normalize on c, "a"+c+"b", c+U+0301+U+0323 (idempotence, equality for NFC/NFD/reordered marks); lookup under the case folding, the decomposition and the next code point. '
                               'tuples: all ordered pairs (thorough: all triples) of the %d "interesting" code points (folding expands or de-normalises, one per combining class, Hangul, U+0345, sharp s, dotted/dotless i, Kelvin/Angstrom/Ohm, sigma forms, digraphs): '
                               'idempotence and equivalence invariance of cif_normalize; packet, table, block, frame and item matching (get / duplicate create / remove) iff normalised forms are equal; most-recent key spelling; name/code length limits 2040-2050 code points with and without supplementary characters. '
                               'ascii-codes: all ordered pairs of 62 ASCII codes that a storage layer might take for numbers, NULL, booleans or patterns (10 / 010 / 1e1 / +10, 0x10, inf, null, %%, _, quotes), as block code, frame code, data name and table key: matched iff normalised forms are equal; '
                               'non-trivial = strings that normalisation changes, or lookups that must succeed under a different spelling' % ninteresting,
                       'samples': ['_x+U+00C5 looked up as _x+U+0061? no: as _x+U+00E5 and _x+U+0061 U+030A', 'U+0345 U+031B', 'block code of 2043 / 2044 code points'],
                       'families': {k: {'evaluations': v[0], 'nontrivial': v[1]} for k, v in fam.items()},
                       'interesting_set_size': ninteresting, 'exhaustive': True},
                      ['ICU 72 unorm2 / u_strFoldCase / u_getCombiningClass are the trusted Unicode oracle',
                       'matching is defined through equality of cif_normalize results, as the property states; N(fold(s)) == N(s) is not required'])


if __name__ == '__main__':
    sys.exit(main())
