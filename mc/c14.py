#!/usr/bin/python3
"""C14: cif_walk visits every element once and obeys navigation directives.
CIF shapes x handler programs enumerated by deviation-bounded DFS (all-CONTINUE, then every single callback invocation
answered with each alternative, then every pair, ...); every walk runs on the real library (ASan build, the handle
passed to each callback is queried) and its callback log is checked by a reference walker."""
import sys, os, json
sys.path.insert(0, os.path.dirname(os.path.abspath(__file__)))
from lib import *
from model import norm, canon_value
from apiops import vlit, vdump

CONT, SKIPC, SKIPS, END = 0, -1, -2, -3
ALTS = [SKIPC, SKIPS, END, 10, 2, 1]      # 1 = CIF_FINISHED: a positive code like any other


# ---------- shapes ----------
def L(names, packets, cat=None):
    """loop: names tuple, packets list of tuples of value names"""
    return {'names': names, 'cat': cat, 'packets': packets}


def C(code, frames=(), loops=()):
    return {'code': code, 'frames': list(frames), 'loops': list(loops)}


SHAPES = {
    'empty': [],
    'one-empty-block': [C('b1')],
    'two-blocks-scalars': [C('b1', loops=[L(('_s1', '_s2'), [('V1', 'V2')], '')]), C('b2', loops=[L(('_s1',), [('V3',)], '')])],
    'block-loop2x2': [C('b1', loops=[L(('_a', '_b'), [('V1', 'V2'), ('V2', 'NA')], 'x')])],
    'block-two-loops': [C('b1', loops=[L(('_a',), [('V1',), ('V2',)]), L(('_c', '_d'), [('V3', 'V1')], 'y'), L(('_s',), [('V2',)], '')])],
    'frames': [C('b1', frames=[C('f1', loops=[L(('_a',), [('V1',)], '')]), C('f2', loops=[L(('_a', '_b'), [('V1', 'V2'), ('V3', 'V1')])])],
                 loops=[L(('_a',), [('V2',)], '')])],
    'nested-frame': [C('b1', frames=[C('f1', frames=[C('n1', loops=[L(('_q',), [('V1',)], '')])], loops=[L(('_p',), [('V2',), ('V1',)])]), C('f2')],
                       loops=[L(('_s',), [('V1',)], ''), L(('_l',), [('V3',)])]), C('b2', loops=[L(('_z',), [('V1',)], '')])],
    'three-blocks': [C('b1', loops=[L(('_a',), [('V1',)], '')]), C('b2', loops=[L(('_a',), [('V2',)], '')]), C('b3', loops=[L(('_a',), [('V3',)], '')])],
    'case-names': [C('Blk', frames=[C('Frm', loops=[L(('_Item',), [('V1',)], '')])], loops=[L(('_Up', '_low'), [('V1', 'V2')])])],
}


def shape_script(shape):
    lines = ['reset', 'cif.new C0']
    hn = [0]

    def cont(c, parent):
        h = 'H%d' % hn[0]
        hn[0] += 1
        if parent is None:
            lines.append('blk.create C0 %s %s' % (U(c['code']), h))
        else:
            lines.append('frm.create %s %s %s' % (parent, U(c['code']), h))
        for l in c['loops']:
            lines.append('loop.create %s %s %d %s L0' % (h, U(l['cat']), len(l['names']), ' '.join(U(n) for n in l['names'])))
            for p in l['packets']:
                lines.append('pkt.create P0 0')
                for n, v in zip(l['names'], p):
                    lines.append('pkt.set P0 %s %s' % (U(n), vlit(v)))
                lines.append('loop.addpkt L0 P0')
        for f in c['frames']:
            cont(f, h)
    for b in shape:
        cont(b, None)
    return lines


# ---------- reference walker ----------
class Mismatch(Exception):
    pass


class Ref:
    def __init__(self, shape, log, rc, prog, null=frozenset()):
        self.shape, self.log, self.rc, self.prog = shape, log, rc, prog
        self.null = null          # handler members that are NULL: no callback, as if it had answered CONTINUE
        self.i = 0

    def resp(self, idx):
        return self.prog.get(idx, CONT)

    def peek(self):
        return self.log[self.i] if self.i < len(self.log) else None

    def take(self, what):
        if what in self.null:
            return None, CONT
        e = self.peek()
        if e is None:
            raise Mismatch('log ends where %s was expected (callback #%d)' % (what, self.i))
        idx = self.i
        self.i += 1
        return e, self.resp(idx)

    @staticmethod
    def classify(r):
        if r in (CONT, SKIPC):
            return 'cont'
        if r == SKIPS:
            return 'skips'
        if r == END:
            return 'end'
        if r > 0:
            return ('err', r)
        return 'cont'   # other negative values: unspecified; treated as continue by nobody - never generated

    def run(self):
        e, r = self.take('cif_start')
        if e is not None and e[0] != 'cif_start':
            raise Mismatch('first callback is %r' % (e,))
        out = 'cont'
        if r == CONT:
            out = self.children(self.shape, 'block_start', self.container, 'blocks')
            if out == 'cont':
                e, r2 = self.take('cif_end')
                if e is not None and e[0] != 'cif_end':
                    raise Mismatch('expected cif_end after all blocks, got %r' % (e,))
                out = self.classify(r2)
            elif out == 'skips':
                # a block answered SKIP_SIBLINGS: the later blocks are skipped; cif_end optional
                if self.peek() is not None and self.peek()[0] == 'cif_end':
                    e, r2 = self.take('cif_end')
                    out = self.classify(r2)
        else:
            out = self.classify(r) if r != SKIPC else 'cont'
        if self.i != len(self.log):
            raise Mismatch('callback #%d %r delivered although the walk should have %s' % (
                self.i, self.log[self.i][:2], 'ended' if out in ('end',) or isinstance(out, tuple) else 'been complete'))
        want = out[1] if isinstance(out, tuple) else 0
        if self.rc != want:
            raise Mismatch('cif_walk returned %d, expected %d' % (self.rc, want))

    def children(self, kids, start_ev, walker, what, ident=None):
        """visit each kid exactly once in any order; returns 'cont' (all visited), 'skips' (a kid asked to skip its later
        siblings), 'end' or ('err', code)"""
        remaining = list(kids)
        if start_ev in self.null:
            # no start callback identifies the element: each remaining element is tried at this place (the walker of a wrong
            # element does not fit the callbacks that follow; elements that fit equally well are interchangeable)
            while remaining:
                last = None
                for k in remaining:
                    save = self.i
                    try:
                        res = walker(k)
                    except Mismatch as m:
                        self.i = save
                        last = m
                        continue
                    remaining.remove(k)
                    break
                else:
                    raise Mismatch('with a NULL %s handler: the callbacks from #%d on fit none of the %d %s still to be visited (%s)' % (start_ev, self.i, len(remaining), what, last))
                if res != 'cont':
                    return res
            return 'cont'
        while remaining:
            e = self.peek()
            if e is None or e[0] != start_ev:
                raise Mismatch('%d of the %s not visited: next callback is %r' % (len(remaining), what, e[:2] if e else None))
            k = self.identify(remaining, e, start_ev)
            if k is None:
                raise Mismatch('%s callback for an element that does not exist or was already visited: %r' % (start_ev, e))
            remaining.remove(k)
            res = walker(k)
            if res == 'cont':
                continue
            return res
        return 'cont'

    def identify(self, remaining, e, ev):
        for k in remaining:
            if ev in ('block_start', 'frame_start'):
                if e[1] == k['code']:
                    return k
            elif ev == 'loop_start':
                if e[1] is not None and sorted(e[1]) == sorted(k['names']) and e[2] == k['cat']:
                    return k
            elif ev == 'packet_start':
                got = sorted((norm(n), canon_value(v)) for n, v in e[1])
                if got == sorted((norm(n), canon_value(vdump(v))) for n, v in k['items']):
                    return k
            elif ev == 'item':
                if e[1] is not None and norm(e[1]) == norm(k[0]) and canon_value(e[2]) == canon_value(vdump(k[1])):
                    return k
        return None

    def optional_end(self, end_ev, ident):
        """after a skip the matching end callback may or may not be delivered"""
        if end_ev in self.null:
            return None
        e = self.peek()
        if e is not None and e[0] == end_ev and ident(e):
            e, r = self.take(end_ev)
            return self.classify(r)
        return None

    def container(self, c):
        isblock = c in self.shape
        sev, eev = ('block_start', 'block_end') if isblock else ('frame_start', 'frame_end')
        e, r = self.take(sev)
        ident = lambda ev: ev[1] == c['code']
        if r in (SKIPC, SKIPS):
            o = self.optional_end(eev, ident)
            base = 'cont' if r == SKIPC else 'skips'
            if o is None or o == 'cont':
                return base
            return o
        if r != CONT:
            return self.classify(r)
        res = self.children(c['frames'], 'frame_start', self.container, 'save frames')
        if res not in ('cont', 'skips'):
            return res
        res = self.children([dict(l, kind='loop') for l in c['loops']], 'loop_start', self.loop, 'loops')
        if res == 'skips':
            o = self.optional_end(eev, ident)
            return 'cont' if o is None else o
        if res != 'cont':
            return res
        e, r = self.take(eev)
        if e is not None and (e[0] != eev or not ident(e)):
            raise Mismatch('expected %s of %r, got %r' % (eev, c['code'], e[:2]))
        return self.classify(r)

    def loop(self, l):
        e, r = self.take('loop_start')
        ident = lambda ev: ev[1] is not None and sorted(ev[1]) == sorted(l['names'])
        if r in (SKIPC, SKIPS):
            o = self.optional_end('loop_end', ident)
            base = 'cont' if r == SKIPC else 'skips'
            return base if o in (None, 'cont') else o
        if r != CONT:
            return self.classify(r)
        pk = [{'items': list(zip(l['names'], p))} for p in l['packets']]
        res = self.children(pk, 'packet_start', self.packet, 'packets')
        if res == 'skips':
            o = self.optional_end('loop_end', ident)
            return 'cont' if o is None else o
        if res != 'cont':
            return res
        e, r = self.take('loop_end')
        if e is not None and (e[0] != 'loop_end' or not ident(e)):
            raise Mismatch('expected loop_end of %r, got %r' % (l['names'], e[:2]))
        return self.classify(r)

    def packet(self, p):
        e, r = self.take('packet_start')
        ident = lambda ev: True
        if r in (SKIPC, SKIPS):
            o = self.optional_end('packet_end', ident)
            base = 'cont' if r == SKIPC else 'skips'
            return base if o in (None, 'cont') else o
        if r != CONT:
            return self.classify(r)
        res = 'cont' if 'item' in self.null else self.children(list(p['items']), 'item', self.item, 'items')
        if res == 'skips':
            o = self.optional_end('packet_end', ident)
            return 'cont' if o is None else o
        if res != 'cont':
            return res
        e, r = self.take('packet_end')
        if e is None:
            return self.classify(r)
        if e[0] != 'packet_end':
            raise Mismatch('expected packet_end, got %r' % (e[:2],))
        got = sorted((norm(n), canon_value(v)) for n, v in e[1])
        if got != sorted((norm(n), canon_value(vdump(v))) for n, v in p['items']):
            raise Mismatch('packet_end delivers another packet than its packet_start')
        return self.classify(r)

    def item(self, it):
        e, r = self.take('item')
        return self.classify(r)


MEMBERS = ['cif_start', 'cif_end', 'block_start', 'block_end', 'frame_start', 'frame_end', 'loop_start', 'loop_end', 'packet_start', 'packet_end', 'item']


def members_of(mask):
    return tuple(m for b, m in enumerate(MEMBERS) if mask & (1 << b))


# handler sets explored with every single deviation (the others: with the all-CONTINUE program); thorough: all 2047
DEVIATED_MASKS = sorted(set([1 << b for b in range(11)] + [1707, 170, 64 | 128 | 256 | 512, 4 | 16 | 64 | 256, 4 | 8 | 16 | 32, 1 | 4 | 16 | 64 | 256 | 1024, 2047 - 1024, 2047 - 4, 2047 - 2]))
# every result code the library defines, and values beyond: a handler's positive answer is returned as it is, whatever it is
CODES = list(range(1, 161)) + [255, 256, 9999, 65536, 2147483647]


def check_walk(shape, ans, prog, null=frozenset()):
    if not isinstance(ans, dict):
        return 'bad answer %r' % (ans,)
    if ans.get('autocommit') != 1:
        return 'a transaction is still open after cif_walk (iterator not closed): autocommit=%r' % ans.get('autocommit')
    if ans.get('after_stop'):
        return '%d callback(s) delivered after a handler answered END or an error code' % ans['after_stop']
    if '<rc=' in json.dumps(ans['log']):
        return 'a query on a handle passed to a callback failed: %s' % json.dumps(ans['log'])[:300]
    try:
        Ref(shape, ans['log'], ans['rc'], prog, null).run()
    except Mismatch as m:
        return str(m)
    return None


def progstr(prog):
    return ','.join('%d:%d' % (k, v) for k, v in sorted(prog.items()))


def work(chunk, cfg, bound):
    """chunk: list of (shape name, first-deviation index list)"""
    ex = worker_exec(cfg)
    out = []
    for name, firsts in chunk:
        shape = SHAPES[name]
        try:
            ex.run(shape_script(shape))
            base = ex.run(['walk C0'])[0]
        except Crash as c:
            out.append((name, {}, 'executor crashed: %s %s' % (c, c.stderr[-1500:]), 0))
            ex = worker_exec(cfg)
            continue
        n_exec = 0
        distinct = set()
        # deviation-bounded DFS, level by level
        level = [({k: r}) for k in firsts for r in ALTS]
        if firsts and firsts[0] == 0:
            err = check_walk(shape, base, {})
            n_exec += 1
            if err:
                out.append((name, {}, err, base.get('ncalls', 0)))
        # handler sets with NULL members
        if firsts and firsts[0] == 0:
            # every positive code at every callback of the full handler set
            try:
                progs = [{k: r} for k in range(base.get('ncalls', 0)) for r in CODES if r not in ALTS]
                answers = []
                for c0 in range(0, len(progs), 1500):
                    answers += ex.run(['walk C0 prog=%s' % progstr(p) for p in progs[c0:c0 + 1500]], timeout=600)
                for p, a in zip(progs, answers):
                    n_exec += 1
                    err = check_walk(shape, a, p)
                    if err:
                        out.append((name, p, err, a.get('ncalls', 0) if isinstance(a, dict) else 0))
            except Crash as c:
                out.append((name, {}, 'executor crashed in the result-code sweep: %s %s' % (c, c.stderr[-1500:]), 0))
                ex = worker_exec(cfg)
                ex.run(shape_script(shape))
            for mask in range(1, 2048):
                members = members_of(mask)
                null = frozenset(members)
                try:
                    b0 = ex.run(['walk C0 null=%d' % mask])[0]
                    progs = [{}]
                    if bound >= 3 or mask in DEVIATED_MASKS:
                        progs += [{k: r} for k in range(b0.get('ncalls', 0)) for r in ALTS]
                    if bound >= 3 and mask in DEVIATED_MASKS:
                        progs += [{k: r, k2: r2} for k in range(b0.get('ncalls', 0)) for r in (SKIPC, SKIPS) for k2 in range(k + 1, b0.get('ncalls', 0)) for r2 in (SKIPC, SKIPS, END, 2)]
                    answers = []
                    for c0 in range(0, len(progs), 1500):
                        answers += ex.run(['walk C0 null=%d prog=%s' % (mask, progstr(p)) for p in progs[c0:c0 + 1500]], timeout=600)
                except Crash as c:
                    out.append((name, {'null': mask}, 'executor crashed with NULL handler members %r: %s %s' % (members, c, c.stderr[-1500:]), 0))
                    ex = worker_exec(cfg)
                    ex.run(shape_script(shape))
                    continue
                for p, a in zip(progs, answers):
                    n_exec += 1
                    err = check_walk(shape, a, p, null)
                    if err:
                        out.append((name, dict(p, null=mask), 'with NULL handler members %s: %s' % ('/'.join(members), err), a.get('ncalls', 0) if isinstance(a, dict) else 0))
        depth = 1
        while level and depth <= bound:
            try:
                answers = []
                for b0 in range(0, len(level), 1500):      # bounded scripts: a level can hold hundreds of thousands of walks
                    answers += ex.run(['walk C0 prog=%s' % progstr(p) for p in level[b0:b0 + 1500]], timeout=600)
            except Crash as c:
                out.append((name, level[0], 'executor crashed in a batch starting with this program: %s %s' % (c, c.stderr[-1500:]), 0))
                ex = worker_exec(cfg)
                ex.run(shape_script(shape))
                break
            nxt = []
            for p, a in zip(level, answers):
                n_exec += 1
                err = check_walk(shape, a, p)
                if err:
                    out.append((name, p, err, a.get('ncalls', 0) if isinstance(a, dict) else 0))
                    continue
                distinct.add(json.dumps(a['log'])[:20000].__hash__())
                if depth < bound:
                    last = max(p)
                    for k in range(last + 1, a['ncalls']):
                        for r in ALTS:
                            q = dict(p)
                            q[k] = r
                            nxt.append(q)
            level = nxt
            depth += 1
        out.append((name, None, None, (n_exec, len(distinct), base.get('ncalls', 0))))
    return out


def main():
    tier = sys.argv[1] if len(sys.argv) > 1 else 'quick'
    rep = Report('C14', tier, 'model_checking')
    bound = int(os.environ.get('C14_BOUND', 2 if tier == 'quick' else 4))
    cfg = os.environ.get('C14_CFG', 'san')
    # size of each shape's all-CONTINUE walk (to split the first deviation index over workers)
    ex = Exec(exe(cfg))
    sizes = {}
    for name, shape in SHAPES.items():
        ex.run(shape_script(shape))
        sizes[name] = ex.run(['walk C0'])[0]['ncalls']
    ex.stop()
    chunks = []
    for name in SHAPES:
        idx = list(range(sizes[name]))
        per = max(1, len(idx) // 8) if bound >= 3 else max(1, len(idx) // 3)
        for part in chunked(idx, per):
            chunks.append([(name, part)])
    execs, distinct, samples = 0, 0, []
    pershape = {}
    for res in pmap(work, chunks, (cfg, bound)):
        if isinstance(res, dict):
            rep.violation({'kind': 'executor'}, res)
            continue
        for name, prog, err, info in res:
            if err is None:
                n, dn, base = info
                execs += n
                distinct += dn
                ps = pershape.setdefault(name, {'walks': 0, 'callbacks_all_continue': base})
                ps['walks'] += n
                continue
            mask = prog.pop('null', None) if isinstance(prog, dict) else None
            wcmd = 'walk C0 %sprog=%s' % ('null=%d ' % mask if mask else '', progstr(prog))
            rep.violation({'shape': name, 'kind': err.split(':')[0][:60] if 'expected' not in err else 'log mismatch'},
                          {'shape': name, 'program': progstr(prog), 'null_handler_mask': mask, 'error': err, 'script': shape_script(SHAPES[name]) + [wcmd]})
    samples = [{'shape': 'nested-frame', 'program': {3: SKIPS, 7: END}}, {'shape': 'frames', 'program': {1: SKIPC}}]
    return rep.finish({'states': execs, 'transitions': sum(sizes.values()), 'traces_validated_against_impl': execs,
                       'evaluations': execs, 'distinct_nontrivial': distinct,
                       'samples': samples, 'deviation_bound': bound, 'shapes': pershape, 'alternatives': ALTS, 'build': cfg, 'exhaustive': True,
                       'explanation': 'states = handler programs executed (every assignment of <=bound non-CONTINUE answers to callback invocations, per shape; plus every result code 1..160 and five larger values as the single deviation at every callback; plus ALL 2047 handler sets with NULL members with the all-CONTINUE program, %d of them (each single member, all starts, all ends, loop+packet members, ...) with every single deviation - thorough: all 2047 with every single deviation and those %d with pairs)' % (len(DEVIATED_MASKS), len(DEVIATED_MASKS)) + '; each is one cif_walk on the real library whose full callback log and return value are checked by the reference walker; distinct_nontrivial = distinct callback logs'},
                      ['sibling order is unspecified (elements matched by identity)', 'after a SKIP answer the matching/parent end callback may or may not be delivered (DESIGN.md Appendix C)'])


if __name__ == '__main__':
    sys.exit(main())
