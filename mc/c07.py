#!/usr/bin/python3
"""C07: values stored in a CIF are read back identical (kind, text, quoted status, numeric value, su, digit precision,
recursive structure, keys in original spelling), and the stored copy is independent of the caller's object.
Bounded grammar of value objects x store routes x read routes."""
import sys, os, itertools, json, unicodedata
sys.path.insert(0, os.path.dirname(os.path.abspath(__file__)))
from lib import *
from roundtrip import lit, canon_dumpval, equiv
from model import canon_value

NUMBERS = ['1', '-1', '+1', '1.', '.5', '007', '-0', '0', '0.0', '1e5', '1E-5', '1.5(3)', '1(03)', '1.50(30)', '-1.25e+3(7)', '12345678901234567890',
           '0.000000000000000000001', '1e308', '1e-308', '9007199254740993', '1.7976931348623157e308', '2.2250738585072014e-308', '5e-324(1)',
           '3.14159265358979323846264338327950288', '1' + '0' * 300, '0.' + '0' * 300 + '1', '123.456e-7(89)', '+.5E+05', '00.00', '1(0)', '7e22']


def strings():
    out = []
    for n in (0, 1, 2, 255, 256, 257, 511, 512, 513, 5000, 70000, 140000):
        out.append('a' * n)
        if n:
            out.append(('é' * n))
            out.append('\U0001F600' * ((n + 1) // 2))
            out.append(('ab\n' * n)[:n])
    out += [' ', '\t', ' lead', 'trail ', "it's", 'say "hi"', ';semi', 'a\n;b', '\\', 'a\\\nb', '?', '.', 'data_x', 'loop_', '[x]', '{y}', '#c', '_n', '$f',
            '\u00e9', 'e\u0301', '\ud7ff\ufffd', 'x\U0010FFFD']
    return out


def trees(max_nodes):
    """all list/table values with at most max_nodes nodes over 6 leaves (keys assigned by position from a fixed list)"""
    leaves = [('s', 'x y', True), ('s', 'bare', False), ('n', '1.5(2)'), ('nq', '-2.50e1(3)'), ('u',), ('a',)]
    KEYS = ['e\u0301', '', 'A', 'a']
    memo = {}

    def gen(n):
        """all values with exactly n nodes"""
        if n in memo:
            return memo[n]
        res = []
        if n == 1:
            res = list(leaves) + [('l', []), ('t', [])]
        else:
            # a composite with children whose sizes sum to n-1
            for parts in compositions(n - 1):
                if len(parts) > 3:
                    continue
                for kids in itertools.product(*[gen(p) for p in parts]):
                    res.append(('l', list(kids)))
                    res.append(('t', [(KEYS[i], k) for i, k in enumerate(kids)]))
        memo[n] = res
        return res

    def compositions(n):
        if n == 0:
            yield ()
            return
        for first in range(1, n + 1):
            for rest in compositions(n - first):
                yield (first,) + rest
    out = []
    for n in range(1, max_nodes + 1):
        out += [v for v in gen(n) if v[0] in ('l', 't')]
    return out


def special_composites():
    big_key = 'k' * 3000
    return [('t', [(' k ', ('s', 'v', False)), ('e\u0301', ('u',)), (big_key, ('l', [('s', 'z', True)]))]),
            ('l', [('s', 'a' * 600, True)] * 3),
            ('l', [('n', '1.5(2)')] * 200),
            ('t', [('key%d' % i, ('l', [('s', 'v%d' % i, False), ('t', [('n', ('n', str(i)))])])) for i in range(60)]),
            ('l', [('l', [('l', [('l', [('l', [('t', [('deep', ('s', 'x', True))])])])])])]),
            ('t', [('\U0001F600', ('s', '\U0001F600', True)), ('A', ('s', 'upper', False)), ('a', ('s', 'lower', False))])]


def cases(tier):
    cs = []
    for s in strings():
        cs.append(('string', ('s', s, True), None))
        ok_bare = s and not any(c in ' \t\n[]{}' for c in s) and s[0] not in '_#$\'"' and s not in ('?', '.') and not s.lower().startswith(('data_', 'save_')) and s.lower() not in ('loop_', 'stop_', 'global_')
        if ok_bare:
            cs.append(('string-unquoted', ('s', s, False), None))
    for n in NUMBERS:
        cs.append(('number', ('n', n), None))
        cs.append(('number-quoted', ('n', n), 'quote'))
        cs.append(('number-like string', ('s', n, False), 'coerce'))
    cs += [('unknown', ('u',), None), ('na', ('a',), None)]
    for t in trees(4 if tier == 'quick' else int(os.environ.get('C07_NODES', 6))):
        cs.append(('composite', t, None))
    for t in special_composites():
        cs.append(('composite-special', t, None))
    return cs


def norm_walk_items(log):
    return [(e[1], e[2]) for e in log if e[0] == 'item']


def cmpv(a, b):
    try:
        ca, cb = canon_value(a), canon_value(b)
    except Exception:
        return False
    if ca == cb:
        return True
    return False


def work(chunk):
    ex = worker_exec('fast')
    out = []
    for fam, spec, mod in chunk:
        L = ['reset', 'cif.new C0', 'blk.create C0 %s H0' % U('b'), 'loop.create H0 - 2 %s %s L0' % (U('_l1'), U('_l2')),
             'val.new V0 %s' % lit(spec)]
        if mod == 'quote':
            L.append('val.setquoted V0 1')
        if mod == 'coerce':
            L.append('val.getnum V0')         # coerces the character value to a number in place
        ie = len(L)
        L += ['val.dump V0',
              'item.set H0 %s V0' % U('_s'),
              'pkt.create P0 0', 'pkt.set P0 %s V0' % U('_l1'), 'pkt.set P0 %s ?' % U('_l2'), 'loop.addpkt L0 P0',
              'loop.additem L0 %s V0' % U('_l3'),
              'itr.open L0 I0', 'itr.next I0', 'pkt.create P1 0', 'pkt.set P1 %s V0' % U('_l2'), 'itr.update I0 P1', 'itr.close I0',
              # an update the library refuses (its second item belongs to no loop) between the stores and the reads: nothing of it stays
              'itr.open L0 I0', 'itr.next I0', 'pkt.create P2 0', 'pkt.set P2 %s %s' % (U('_l1'), lit(('s', 'refused', True))),
              'pkt.set P2 %s %s' % (U('_l3'), lit(('s', 'refused', True))), 'pkt.set P2 %s %s' % (U('_zz'), lit(('s', 'foreign', True))), 'itr.update I0 P2', 'itr.close I0',
              'val.copychar V0 %s' % U('mutated'), 'val.free V0', 'pkt.free P0', 'pkt.free P1',
              'item.get H0 %s' % U('_s'), 'dump C0', 'walk C0',
              # fifth store route, the parser: the CIF is written, the text parsed into a second CIF and that one read
              'write C0 B0 v=2', 'parse new:C1 B0', 'dump C1']
        # a table that has been through the store answers look-ups under every canonically equivalent spelling of its keys
        lookups = []
        if spec[0] == 't' and spec[1]:
            L.append('item.get H0 %s V5' % U('_s'))
            for k, _ in spec[1]:
                for sp in sorted(set([k, unicodedata.normalize('NFC', k), unicodedata.normalize('NFD', k)])):
                    lookups.append((k, sp))
                    L.append('val.getkey V5 %s -' % U(sp))
        try:
            a = ex.run(L)
        except Crash as c:
            out.append((fam, spec, 'crash/hang: %s %s' % (c, c.stderr[-800:])))
            ex = worker_exec('fast')
            continue
        exp = a[ie]
        errs = [x for x in a[ie + 1:ie + 13] if not isinstance(x, dict) or x.get('rc', 0) != 0]
        if not isinstance(exp, dict) or errs:
            out.append((fam, spec, 'a store route failed: %r' % (errs[:3] or exp,)))
            continue
        got_get, dump, walk = a[ie + 25], a[ie + 26], a[ie + 27]
        wr, pr, dump1 = a[ie + 28], a[ie + 29], a[ie + 30]
        if not isinstance(a[ie + 19], dict) or a[ie + 19].get('rc') == 0:
            out.append((fam, spec, 'driver: the update with an item of no loop was not refused: %r' % (a[ie + 19],)))
            continue
        problems = []
        if isinstance(wr, dict) and wr.get('rc') == 0:
            # (a value cif_write refuses - it says so - cannot take this route; what it does write must come back through the parser
            # as the value stored, up to the two allowances of the written form: a number and an unquoted string of the same text are
            # one value, an unquoted string that begins with a semicolon may come back quoted)
            try:
                if pr.get('rc') != 0 or pr.get('nerr'):
                    problems.append('parser route: parsing the written CIF gave rc %r and %r error(s)' % (pr.get('rc'), pr.get('nerr')))
                found1 = {}
                for l in dump1['blocks'][0]['loops']:
                    for p in l['packets']:
                        for n, v in p:
                            found1[n] = v
                for n in ('_s', '_l1', '_l2', '_l3'):
                    ce = canon_dumpval(exp)
                    if ce[0] == 's' and ce[2] == 0 and len(ce[1]) > 2000:
                        ce = (ce[0], ce[1], 1)      # too long for one line: it can only be written as a text field, and comes back quoted
                    if n not in found1 or not equiv(ce, canon_dumpval(found1[n])):
                        problems.append('parser route: %s reads back as %s' % (n, json.dumps(found1.get(n))[:300]))
            except Exception as e:
                problems.append('parser route: dump unusable: %r' % (e,))
        for (k, sp), ans in zip(lookups, a[len(a) - len(lookups):]):
            want = [e for kk, e in exp.get('i', []) if kk == k]
            if not isinstance(ans, dict) or ans.get('rc') != 0 or not want or not cmpv(want[-1], ans['v']):
                problems.append('the table read back does not answer key %r spelled %r: %s' % (k, sp, json.dumps(ans)[:200]))
        if got_get.get('rc') != 0 or not cmpv(exp, got_get['v']):
            problems.append('get_value returned %s' % json.dumps(got_get)[:300])
        try:
            loops = dump['blocks'][0]['loops']
            found = {}
            for l in loops:
                for p in l['packets']:
                    for n, v in p:
                        found[n] = v
            for n in ('_s', '_l1', '_l2', '_l3'):
                if n not in found or not cmpv(exp, found[n]):
                    problems.append('iteration reads %s as %s' % (n, json.dumps(found.get(n))[:300]))
        except Exception as e:
            problems.append('dump unusable: %r' % (e,))
        items = norm_walk_items(walk.get('log', [])) if isinstance(walk, dict) else []
        if len(items) != 4 or any(not cmpv(exp, v) for _, v in items):
            problems.append('cif_walk presents %s' % json.dumps(items)[:300])
        if problems:
            out.append((fam, spec, 'stored value differs from %s: %s' % (json.dumps(exp)[:200], '; '.join(problems))))
    return (len(chunk), out)


def main():
    tier = sys.argv[1] if len(sys.argv) > 1 else 'quick'
    rep = Report('C07', tier, 'exploration')
    cs = cases(tier)
    n = 0
    for res in pmap(work, chunked(cs, max(1, len(cs) // (NPROC * 4)))):
        if isinstance(res, dict):
            rep.violation({'kind': 'executor'}, res)
            continue
        k, out = res
        n += k
        for fam, spec, msg in out:
            short = lit(spec)
            rep.violation({'family': fam, 'case': short[:80] if len(short) < 200 else '%s... (%d chars)' % (short[:40], len(short))},
                          {'family': fam, 'value_literal': short[:2000], 'message': msg[:3000]})
    fams = {}
    for f, _, _ in cs:
        fams[f] = fams.get(f, 0) + 1
    return rep.finish({'evaluations': n * 4 * 3, 'distinct_nontrivial': len(cs) - 2,
                       'rule': 'value grammar: strings of length 0,1,2,255-257,511-513,5000,70000,140000 in ASCII / BMP / supplementary / multi-line content plus syntactically special strings, quoted and unquoted; '
                               '%d number spellings plain, quoted and as coerced number-like strings; unknown, n/a; ALL lists/tables with at most %d nodes over 6 leaves; special composites (3000-unit key, 200 elements, depth 6, NFD / case-variant keys). '
                               'Each value is stored by 4 routes (set_value, add_packet, add_item, iterator update), the caller object is then mutated and freed, and read back by 3 routes (get_value, iteration, cif_walk); a table read back is also queried for each key in its given, NFC and NFD spelling; '
                               'evaluations = cases x store routes x read routes' % (len(NUMBERS), 4 if tier == 'quick' else int(os.environ.get('C07_NODES', 6))),
                       'samples': [lit(cs[3][1])[:60], lit(cs[-1][1])[:80], NUMBERS[11]], 'families': fams, 'exhaustive': True},
                      ['expected = deep dump of the caller\'s value object taken before storing (kind, text, quoted, number, su, digits, scale, sign, recursive structure)'])


if __name__ == '__main__':
    sys.exit(main())
