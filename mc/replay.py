#!/usr/bin/python3
"""bin/check <Cxx> replay --replay <file>: shows a recorded violation again on the current tree.
A replay file (replays/<Cxx>/<hash>.json) holds the signature of the violation and its detail.  Where the detail carries an
executor script (C14, C17, ...) the script is executed once more on the library built from /repo's working tree and every
answer is printed; where it carries a document, the document is parsed again (with the recorded options) and the result
printed; otherwise the recorded history / case is printed together with the command that re-derives it (the explorations are
deterministic: the same violation is found again by `bin/check <Cxx> quick`)."""
import sys, os, json
sys.path.insert(0, os.path.dirname(os.path.abspath(__file__)))
from lib import *


def main():
    pid = sys.argv[1]
    path = sys.argv[sys.argv.index('--replay') + 1] if '--replay' in sys.argv else None
    if not path or not os.path.exists(path):
        print('usage: bin/check %s replay --replay <file under replays/%s/>' % (pid, pid))
        return 2
    r = json.load(open(path))
    d = r.get('detail', {})
    print('property   %s' % r.get('property'))
    print('signature  %s' % json.dumps(r.get('signature'), ensure_ascii=True))
    for k in ('message', 'error', 'problems'):
        if k in d:
            print('%-10s %s' % (k, (d[k] if isinstance(d[k], str) else json.dumps(d[k], ensure_ascii=True))[:3000]))
    cfg = 'san' if pid in ('C14', 'C16', 'C17', 'C19') else 'fast'
    script = d.get('script')
    doc = d.get('document') or d.get('text')
    if pid == 'C17':
        os.environ['CIFX_ALLOCATORS'] = '1'
    if script:
        print('--- executing the recorded script on the current tree (%s build)' % cfg)
        ex = Exec(exe(cfg))
        ex.audit = False
        try:
            ans = ex.run(script, timeout=600)
            for line, a in zip(script, ans):
                print('> %s' % line[:200])
                print('  %s' % json.dumps(a, ensure_ascii=True)[:1500])
        except Crash as c:
            print('the executor died or hung: %s\n%s' % (c, c.stderr[-4000:]))
            return 1
        ex.stop()
    elif isinstance(doc, str):
        print('--- parsing the recorded document on the current tree')
        ex = Exec(exe(cfg))
        opts = d.get('options') or ''
        try:
            ans = ex.run(['reset', 'bytes.set B0 %s' % doc.encode('utf-8', 'surrogatepass').hex(), 'parse new:C0 B0 %s' % opts, 'dump C0'], timeout=600)
            print(json.dumps(ans[2], ensure_ascii=True)[:3000])
            print(json.dumps(ans[3], ensure_ascii=True)[:3000])
        except Crash as c:
            print('the executor died or hung: %s\n%s' % (c, c.stderr[-4000:]))
            return 1
        ex.stop()
    else:
        print('--- recorded case')
        print(json.dumps(d, ensure_ascii=True, indent=1)[:6000])
    print('--- the exploration is deterministic: `bin/check %s quick` reports this violation again while it persists' % pid)
    return 0


if __name__ == '__main__':
    sys.exit(main())
