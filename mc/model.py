"""Reference model of the documented managed-CIF data model (DESIGN.md Appendix A and B).

Deliberately boring: dictionaries and lists.  Every method returns (set of admissible return codes, payload) and
applies its effect only when the admissible outcome is success.  Where the documentation leaves the outcome open
the admissible set has several members; the driver then follows what the implementation actually did, provided it is
admissible (method `follow`)."""
import unicodedata, copy

OK, FINISHED, ERROR, MEMORY_ERROR, INVALID_HANDLE, INTERNAL_ERROR, ARGUMENT_ERROR, MISUSE = 0, 1, 2, 3, 4, 5, 6, 7
DUP_BLOCKCODE, INVALID_BLOCKCODE, NOSUCH_BLOCK = 11, 12, 13
DUP_FRAMECODE, INVALID_FRAMECODE, NOSUCH_FRAME = 21, 22, 23
CAT_NOT_UNIQUE, INVALID_CATEGORY, NOSUCH_LOOP, RESERVED_LOOP, WRONG_LOOP, EMPTY_LOOP, NULL_LOOP = 31, 32, 33, 34, 35, 36, 37
DUP_ITEMNAME, INVALID_ITEMNAME, NOSUCH_ITEM, AMBIGUOUS_ITEM = 41, 42, 43, 44
INVALID_PACKET = 52
ANY_ERROR = frozenset(range(2, 200))

UNK = {'k': 'unk'}


def norm(s):
    return unicodedata.normalize('NFC', unicodedata.normalize('NFD', s).casefold())


def _bad_chars(s):
    for ch in s:
        o = ord(ch)
        if o <= 0x20 or o == 0x7f or 0xfdd0 <= o <= 0xfdef or (o & 0xfffe) == 0xfffe or 0xd800 <= o <= 0xdfff:
            return True
    return False


def valid_code(s):
    return s is not None and len(s) > 0 and len(s) <= 2043 and not _bad_chars(s)


def valid_name(s):
    return s is not None and len(s) >= 2 and s[0] == '_' and len(s) <= 2048 and not _bad_chars(s)


class Loop:
    def __init__(self, category, names):
        self.category = category
        self.names = {}          # norm -> original spelling
        for n in names:
            self.names[norm(n)] = n
        self.packets = []        # list of dict norm -> value (JSON-able dump); missing = unknown

    def is_scalar(self):
        return self.category == ''


class Container:
    def __init__(self, code, isblock):
        self.code = code
        self.isblock = isblock
        self.frames = {}   # norm -> Container
        self.loops = []    # list of Loop

    def find_item(self, nname):
        for l in self.loops:
            if nname in l.names:
                return l
        return None


class Cif:
    def __init__(self):
        self.blocks = {}


def vkey(v):
    import json
    return json.dumps(v, sort_keys=True)


def canon_value(v):
    """comparison form of a value dump: numb/char details kept; table entries sorted by key"""
    if v is None:
        return None
    k = v['k']
    if k == 'list':
        return ('list', tuple(canon_value(e) for e in v['e']))
    if k == 'table':
        return ('table', tuple(sorted((kk, canon_value(e)) for kk, e in v['i'])))
    if k in ('char', 'numb'):
        return (k, v['t'], v['q'], v.get('num'), v.get('su'), v.get('dig'), v.get('sud'), v.get('scale'), v.get('sign'))
    return (k,)


def canon_loop_model(l):
    names = tuple(sorted(l.names.values()))
    pk = []
    for p in l.packets:
        pk.append(tuple(sorted((n, canon_value(p.get(n, UNK))) for n in l.names)))
    return (l.category, names, tuple(sorted(pk, key=repr)))


def canon_container_model(c):
    return (c.code, c.isblock, tuple(sorted((canon_container_model(f) for f in c.frames.values()), key=repr)),
            tuple(sorted((canon_loop_model(l) for l in c.loops), key=repr)))


def canon_cif_model(cif):
    return tuple(sorted((canon_container_model(b) for b in cif.blocks.values()), key=repr))


def canon_loop_dump(d):
    names = tuple(sorted(d['names']))
    pk = []
    for p in d['packets']:
        if not isinstance(p, list):
            pk.append(('BAD', repr(p)))
            continue
        # names inside packets are matched by normalised equivalence (the iterator reports them normalised); the
        # creation spelling is checked through loop_get_names above
        pk.append(tuple(sorted((norm(n), canon_value(v)) for n, v in p)))
    return (d['cat'], names, tuple(sorted(pk, key=repr)))


def canon_container_dump(d):
    return (d['code'], d['isblock'] == 0, tuple(sorted((canon_container_dump(f) for f in d['frames']), key=repr)),
            tuple(sorted((canon_loop_dump(l) for l in d['loops']), key=repr)))


def canon_cif_dump(d):
    return tuple(sorted((canon_container_dump(b) for b in d['blocks']), key=repr))


class Model:
    """cifs: slot -> Cif.  Handle slots: H -> ('c', cifslot, path tuple of norm codes) ; L -> ('l', Hpath..., Loop object)"""

    def __init__(self):
        self.cifs = {}
        self.H = {}   # slot -> (cifslot, Container object)
        self.L = {}   # slot -> (cifslot, Container object, Loop object)
        self.Lp = {}  # loop slot -> container slot it was obtained through (the handle aliases it)
        self.I = {}   # iterator slot -> iterops.It

    def set_h(self, h, val):
        self.drop_h(h)
        self.H[h] = val

    def drop_h(self, h):
        for l in [l for l, p in self.Lp.items() if p == h]:
            self.L.pop(l, None)
            self.Lp.pop(l, None)
        self.H.pop(h, None)

    def set_l(self, l, val, parent):
        self.L[l] = val
        self.Lp[l] = parent

    def clone(self):
        return copy.deepcopy(self)

    # ----- liveness -----
    def container_live(self, ci, cont):
        def walk(c):
            if c is cont:
                return True
            return any(walk(f) for f in c.frames.values())
        cif = self.cifs.get(ci)
        return cif is not None and any(walk(b) for b in cif.blocks.values())

    def loop_live(self, ci, cont, loop):
        return self.container_live(ci, cont) and any(l is loop for l in cont.loops)

    def h_live(self, h):
        return h in self.H and self.container_live(*self.H[h])

    def l_live(self, l):
        return l in self.L and self.loop_live(*self.L[l])

    # ----- cif / containers -----
    def cif_new(self, ci):
        self.cifs[ci] = Cif()
        return {OK}

    def cif_destroy(self, ci):
        del self.cifs[ci]
        for h in [h for h, v in self.H.items() if v[0] == ci]:
            self.drop_h(h)
        for l in [l for l, v in self.L.items() if v[0] == ci]:
            del self.L[l]
        return {OK}

    def blk_create(self, ci, code, h):
        cif = self.cifs[ci]
        if code is None:
            return {ARGUMENT_ERROR, INVALID_BLOCKCODE}
        if not valid_code(code):
            return {INVALID_BLOCKCODE}
        n = norm(code)
        if n in cif.blocks:
            return {DUP_BLOCKCODE}
        c = Container(code, True)
        cif.blocks[n] = c
        if h is not None:
            self.set_h(h, (ci, c))
        return {OK}

    def blk_get(self, ci, code, h):
        cif = self.cifs[ci]
        if code is None or not valid_code(code):
            return {NOSUCH_BLOCK, INVALID_BLOCKCODE, ARGUMENT_ERROR}
        n = norm(code)
        if n not in cif.blocks:
            return {NOSUCH_BLOCK}
        if h is not None:
            self.set_h(h, (ci, cif.blocks[n]))
        return {OK}

    def frm_create(self, hp, code, h):
        ci, parent = self.H[hp]
        if code is None:
            return {ARGUMENT_ERROR, INVALID_FRAMECODE}
        if not valid_code(code):
            return {INVALID_FRAMECODE}
        n = norm(code)
        if n in parent.frames:
            return {DUP_FRAMECODE}
        c = Container(code, False)
        parent.frames[n] = c
        if h is not None:
            self.set_h(h, (ci, c))
        return {OK}

    def frm_get(self, hp, code, h):
        ci, parent = self.H[hp]
        if code is None or not valid_code(code):
            return {NOSUCH_FRAME, INVALID_FRAMECODE, ARGUMENT_ERROR}
        n = norm(code)
        if n not in parent.frames:
            return {NOSUCH_FRAME}
        if h is not None:
            self.set_h(h, (ci, parent.frames[n]))
        return {OK}

    def cont_destroy(self, h):
        ci, c = self.H[h]
        self.drop_h(h)         # the handle is consumed
        cif = self.cifs[ci]

        def rm(parent_map):
            for k, v in list(parent_map.items()):
                if v is c:
                    del parent_map[k]
                    return True
                if rm(v.frames):
                    return True
            return False
        if not rm(cif.blocks):
            # stale handle (the container went away with its parent): cif.h promises CIF_INVALID_HANDLE, but the use of
            # stale handles is outside the property ("valid (live) handles"), so success is tolerated as well
            return {INVALID_HANDLE, OK}
        return {OK}

    def cont_free(self, h):
        self.drop_h(h)
        return {OK}

    # ----- loops -----
    def loop_create(self, h, cat, names, l):
        ci, c = self.H[h]
        if names is None:
            return {ARGUMENT_ERROR}
        if len(names) == 0:
            return {NULL_LOOP}
        errs = set()
        if any(not valid_name(n) for n in names):
            # validation precedes every other test
            return {INVALID_ITEMNAME}
        nn = [norm(n) for n in names]
        if len(set(nn)) != len(nn) or any(c.find_item(n) is not None for n in nn):
            errs.add(DUP_ITEMNAME)
        if cat == '' and any(x.is_scalar() for x in c.loops):
            errs.add(RESERVED_LOOP)
        if errs:
            return errs
        lp = Loop(cat, names)
        c.loops.append(lp)
        if l is not None:
            self.set_l(l, (ci, c, lp), h)
        return {OK}

    def loop_getcat(self, h, cat, l):
        ci, c = self.H[h]
        if cat is None:
            return {INVALID_CATEGORY}
        m = [x for x in c.loops if x.category is not None and x.category == cat]
        if not m:
            return {NOSUCH_LOOP}
        if len(m) > 1:
            return {CAT_NOT_UNIQUE}
        if l is not None:
            self.set_l(l, (ci, c, m[0]), h)
        return {OK}

    def loop_getitem(self, h, name, l):
        ci, c = self.H[h]
        if name is None or not valid_name(name):
            return {NOSUCH_ITEM, INVALID_ITEMNAME}
        lp = c.find_item(norm(name))
        if lp is None:
            return {NOSUCH_ITEM}
        if l is not None:
            self.set_l(l, (ci, c, lp), h)
        return {OK}

    def loop_setcat(self, l, cat):
        ci, c, lp = self.L[l]
        if cat == '':
            return {RESERVED_LOOP}
        if lp.is_scalar():
            return {RESERVED_LOOP}
        lp.category = cat
        return {OK}

    def loop_additem(self, l, name, v):
        ci, c, lp = self.L[l]
        if name is None or not valid_name(name):
            return {INVALID_ITEMNAME}
        n = norm(name)
        if c.find_item(n) is not None:
            return {DUP_ITEMNAME}
        lp.names[n] = name
        for p in lp.packets:
            p[n] = v if v is not None else UNK
        return {OK}

    def loop_addpkt(self, l, pkt):
        """pkt: list of (name, value) in packet order (names unique by norm)"""
        ci, c, lp = self.L[l]
        if len(pkt) == 0:
            return {INVALID_PACKET}
        errs = set()
        if any(norm(n) not in lp.names for n, _ in pkt):
            errs.add(WRONG_LOOP)
        if lp.is_scalar() and len(lp.packets) >= 1:
            errs.add(RESERVED_LOOP)
        if errs:
            return errs
        lp.packets.append({norm(n): v for n, v in pkt})
        return {OK}

    def loop_destroy(self, l):
        ci, c, lp = self.L[l]
        c.loops = [x for x in c.loops if x is not lp]
        del self.L[l]
        self.Lp.pop(l, None)
        return {OK}

    def loop_free(self, l):
        del self.L[l]
        self.Lp.pop(l, None)
        return {OK}

    def cont_prune(self, h):
        ci, c = self.H[h]
        c.loops = [x for x in c.loops if len(x.packets) > 0]
        return {OK}

    def item_set(self, h, name, v):
        ci, c = self.H[h]
        if name is None or not valid_name(name):
            return {INVALID_ITEMNAME}
        n = norm(name)
        v = v if v is not None else UNK
        lp = c.find_item(n)
        if lp is not None:
            for p in lp.packets:
                p[n] = v
            return {OK}
        sc = [x for x in c.loops if x.is_scalar()]
        if sc:
            sl = sc[0]
        else:
            sl = Loop('', [])
            c.loops.append(sl)
        sl.names[n] = name
        if not sl.packets:
            sl.packets.append({})
        sl.packets[0][n] = v
        return {OK}

    def item_get(self, h, name):
        """returns (admissible rc set, list of admissible values)"""
        ci, c = self.H[h]
        if name is None or not valid_name(name):
            return {NOSUCH_ITEM, INVALID_ITEMNAME}, []
        n = norm(name)
        lp = c.find_item(n)
        if lp is None:
            return {NOSUCH_ITEM}, []
        stored = [p[n] for p in lp.packets if n in p]
        if len(lp.packets) == 0:
            return {NOSUCH_ITEM}, []
        if len(stored) == len(lp.packets):
            if len(stored) == 1:
                return {OK}, stored
            return {AMBIGUOUS_ITEM}, stored
        # sparse packets: the documentation does not say; any answer consistent with the stored rows
        if len(stored) == 0:
            return {NOSUCH_ITEM, OK, AMBIGUOUS_ITEM}, [UNK]
        return {OK, AMBIGUOUS_ITEM}, stored + [UNK]

    def item_remove(self, h, name):
        ci, c = self.H[h]
        if name is None or not valid_name(name):
            return {NOSUCH_ITEM, INVALID_ITEMNAME}
        n = norm(name)
        lp = c.find_item(n)
        if lp is None:
            return {NOSUCH_ITEM}
        del lp.names[n]
        for p in lp.packets:
            p.pop(n, None)
        if not lp.names:
            c.loops = [x for x in c.loops if x is not lp]
        return {OK}

    def parse_into(self, ci, doc, prune):
        """effect of parsing a small well-formed document (list of (block code, items, frames)) into CIF ci with an
        all-accepting error callback: an existing block / frame is re-opened (CIF_DUP_BLOCKCODE / CIF_DUP_FRAMECODE is
        reported), an item whose name the container already has is reported (CIF_DUP_ITEMNAME) and ignored.
        prune: whether packet-less loops of every container the parser visited are removed (undocumented either way).
        Returns the list of error codes in document order."""
        cif = self.cifs[ci]
        errs = []

        def items_into(c, items):
            for name, v in items:
                n = norm(name)
                if c.find_item(n) is not None:
                    errs.append(DUP_ITEMNAME)
                    continue
                sc = [x for x in c.loops if x.is_scalar()]
                if sc:
                    sl = sc[0]
                else:
                    sl = Loop('', [])
                    c.loops.append(sl)
                sl.names[n] = name
                if not sl.packets:
                    sl.packets.append({})
                sl.packets[0][n] = v
        for code, items, frames in doc:
            n = norm(code)
            if n in cif.blocks:
                errs.append(DUP_BLOCKCODE)
                b = cif.blocks[n]
            else:
                b = Container(code, True)
                cif.blocks[n] = b
            items_into(b, items)
            for fcode, fitems in frames:
                fn = norm(fcode)
                if fn in b.frames:
                    errs.append(DUP_FRAMECODE)
                    f = b.frames[fn]
                else:
                    f = Container(fcode, False)
                    b.frames[fn] = f
                items_into(f, fitems)
                if prune:
                    f.loops = [x for x in f.loops if len(x.packets) > 0]
            if prune:
                b.loops = [x for x in b.loops if len(x.packets) > 0]
        return errs

    def drop_valueless_all(self):
        n = [0]

        def walk(c):
            for l in c.loops:
                keep = [p for p in l.packets if any(k in p for k in l.names)]
                n[0] += len(l.packets) - len(keep)
                l.packets = keep
            for f in c.frames.values():
                walk(f)
        for cif in self.cifs.values():
            for b in cif.blocks.values():
                walk(b)
        return n[0]

    def invariants(self):
        bad = []
        for ci, cif in self.cifs.items():
            def chk(c):
                seen = set()
                for l in c.loops:
                    for n in l.names:
                        if n in seen:
                            bad.append('name twice in container')
                        seen.add(n)
                if sum(1 for l in c.loops if l.is_scalar()) > 1:
                    bad.append('two scalar loops')
                for l in c.loops:
                    if l.is_scalar() and len(l.packets) > 1:
                        bad.append('scalar loop with several packets')
                for f in c.frames.values():
                    chk(f)
            for b in cif.blocks.values():
                chk(b)
        return bad
