#!/usr/bin/python3
"""C08: parse results are independent of line-terminator style and of where constructs fall relative to the parser's
4096-byte read buffer and its scan buffer.  Differential sweep: every probe document x terminator style x every padding
length that moves each byte of the probe across a buffer seam (thorough: every offset modulo 4096) x base offsets;
oracle = content and (error code, line) sequence of the LF-only, unpadded rendering."""
import sys, os, json
sys.path.insert(0, os.path.dirname(os.path.abspath(__file__)))
from lib import *

HDR2 = '#\\#CIF_2.0\n'
HDR1 = '#\\#CIF_1.1\n'
E_ACUTE, EMOJI, D7FF = '\u00e9', '\U0001F600', '\ud7ff'

PROBES = [
    ('scalars', HDR2, 'data_b\n_a 1\n_b two\n_c ?\n'),
    ('loop+text', HDR2, 'data_b\nloop_\n_a\n_b\n1 2\n;text\nfield\n;\n4\n'),
    ('triple multi-line', HDR2, "data_b\n_a '''line1\nline2'''\n_b \"\"\"x\n\ny\"\"\"\n_c z\n"),
    ('folded text', HDR2, 'data_b\n_a\n;\\\nab\\\ncd\nef\\\\\n\n;\n_b x\n'),
    ('prefixed text', HDR2, 'data_b\n_a\n;> \\\n> one\n> ;two\n> \n;\n_b x\n'),
    ('prefixed+folded', HDR2, 'data_b\n_a\n;x\\\\\nxab\\\nxcd\nx\n;\n_b 1\n'),
    ('composites', HDR2, 'data_b\n_t {\'k\':v "k2":[a b]\n\'\'\'k3\'\'\':\n;tx\n;\n}\n_l [[1 2]\n[]\n{}]\n'),
    ('unicode', HDR2, "data_b\n_a '" + E_ACUTE + EMOJI + D7FF + "'\n_b " + E_ACUTE + EMOJI + "\n_" + E_ACUTE + " x\n"),
    ('frames', HDR2, 'data_b\nsave_f\n_a 1\nsave_\n_c 3\ndata_c\n_a 2\n'),
    ('comments', HDR2, 'data_b\n# comment\n\n\n_a # trailing\n 1\n#last\n'),
    ('text with blank lines', HDR2, 'data_b\n_a\n;\n\nline\n\n;\n_b\n;x\n;\n'),
    ('semicolons', HDR2, 'data_b\n_a ;x\n_b \';\'\n_c\n;;\n;;\n;\n'),
    ('quotes at eol', HDR2, "data_b\n_a 'q'\n_b \"r\"\n_c '''s'''\n_d 't'\n"),
    ('cif1 quotes', HDR1, "data_b\n_a 'it's'\n_b [x]\n_c {y}\n_d\n;\\\nnot\\\nfolded\n;\n"),
    ('cif1 no magic', '', "data_b\n_a 'a'b'\n_b 2\n"),
    # defect probes: error codes and lines must be alignment independent too
    ('err missing value', HDR2, 'data_b\n_a\n_b 2\n'),
    ('err missing endquote', HDR2, "data_b\n_a 'abc\n_b 2\n"),
    ('err dup name', HDR2, 'data_b\n_a 1\n_a 2\n_b 3\n'),
    ('err partial packet', HDR2, 'data_b\nloop_\n_a\n_b\n1 2\n3\n_c 4\n'),
    ('err unexpected delim', HDR2, 'data_b\n_a ]\n_b [1 2\n_c 3\n'),
    ('err unclosed text', HDR2, 'data_b\n_a\n;never\nclosed\n'),
    ('err disallowed char', HDR2, 'data_b\n_a x\x01y\n_b \x7f\n'),
    ('err missing space', HDR2, "data_b\n_a 'x''y'\n_b {'k':1'j':2}\n"),
    ('err no block', HDR2, '_a 1\ndata_b\n_b 2\n'),
    ('err frame', HDR2, 'data_b\nsave_f\n_a 1\ndata_c\n_b 2\n'),
    ('err reserved', HDR2, 'data_b\n_a loop_\n_b stop_\n_c global_\n'),
]

STYLES = ['LF', 'CRLF', 'CR', 'MIXED']
EOLS = {'LF': ['\n'], 'CRLF': ['\r\n'], 'CR': ['\r'], 'MIXED': ['\n', '\r', '\r\n']}     # never CR directly followed by LF: that would be one CR LF terminator


def render(text, style, k0=0):
    """replace every newline by the style's terminator (cycling for MIXED); returns bytes"""
    e = EOLS[style]
    out, k = [], k0
    for ch in text:
        if ch == '\n':
            out.append(e[k % len(e)])
            k += 1
        else:
            out.append(ch)
    return ''.join(out).encode('utf-8', 'surrogatepass')


def pad_commands(p, style):
    """executor commands appending exactly p bytes of comment lines (each at most 2000 characters) to B0.
    returns (commands, number of lines added)"""
    eol = EOLS[style][0].encode()
    cmds, lines = [], 0
    full = 2000
    while p > 0:
        n = min(p, full)
        if n <= len(eol):
            # too short for '#' + terminator: blanks are insignificant as well (at most a few)
            cmds.append('bytes.rep B0 %d 20' % n)
            p -= n
            continue
        body = n - len(eol)
        rem = p - n
        if 0 < rem <= len(eol):
            body -= (len(eol) + 1 - rem) if body > (len(eol) + 1) else 0
            n = body + len(eol)
        cmds.append('bytes.app B0 23')
        if body > 1:
            cmds.append('bytes.rep B0 %d 78' % (body - 1))
        cmds.append('bytes.app B0 %s' % eol.hex())
        lines += 1
        p -= n
    return cmds, lines


def norm_result(a, added_lines):
    if not isinstance(a, dict):
        return ('bad', repr(a))
    errs = tuple((e[0], e[1] - added_lines) for e in a['errs'])
    return (a['rc'], errs, json.dumps(a['dump'], sort_keys=True))


def opts_for(hdr):
    return ''


def work(chunk):
    ex = worker_exec('fast')
    out = []
    n = 0
    ex.run(['reset', 'cif.new C0'])
    for (pi, style, base, plist) in chunk:
        name, hdr, body = PROBES[pi]
        ref = ex.run(['bytes.set B0 %s' % render(hdr + body, 'LF').hex(), 'parse.reuse C0 B0'])[1]
        refn = norm_result(ref, 0)
        hb = render(hdr, style)
        pb = render(body, style, 1)
        for p in plist:
            cmds = ['bytes.set B0 %s' % hb.hex()]
            added = 0
            if base:
                # a run of full comment lines brings the probe close to a scan-buffer event
                eol = EOLS[style][0].encode()
                line = b'#' + b'y' * (1999 - len(eol)) + eol
                cnt = base // 2000
                cmds.append('bytes.rep B0 %d %s' % (cnt, line.hex()))
                added += cnt
            pc, pl = pad_commands(p, style)
            cmds += pc
            added += pl
            cmds.append('bytes.app B0 %s' % pb.hex())
            cmds.append('parse.reuse C0 B0')
            try:
                a = ex.run(cmds)[-1]
            except Crash as c:
                out.append((name, style, base, p, 'crash/hang: %s %s' % (c, c.stderr[-600:])))
                ex = worker_exec('fast')
                ex.run(['reset', 'cif.new C0'])
                continue
            n += 1
            got = norm_result(a, added)
            if got != refn:
                what = 'return code' if got[0] != refn[0] else ('error (code, line) sequence %r vs %r' % (got[1], refn[1]) if got[1] != refn[1] else 'content')
                out.append((name, style, base, p, 'differs from the LF-only unpadded parse in %s\n  got: %s\n  ref: %s' % (what, str(got)[:700], str(refn)[:700])))
    return (n, out)


def main():
    tier = sys.argv[1] if len(sys.argv) > 1 else 'quick'
    rep = Report('C08', tier, 'exploration')
    bases = [0, 130000, 258000]        # 130000: the sweep crosses offset 131072, where the 131200-unit scan buffer is first compacted; 258000: well after it
    jobs = []
    nprobes = int(os.environ.get('C08_PROBES', len(PROBES)))
    for pi, (name, hdr, body) in enumerate(PROBES):
        if pi >= nprobes:
            break
        for style in STYLES:
            hlen = len(render(hdr, style))
            m = len(render(body, style, 1))
            for base in bases:
                if tier == 'quick':
                    start = (base // 2000) * 2000 + hlen
                    # paddings that put every byte of the probe (and a margin) on the next 4096-byte seam
                    seam = ((start // 4096) + 1) * 4096
                    lo = max(0, seam - start - m - 8)
                    hi = seam - start + 8
                    plist = list(range(lo, hi))
                    if base == 0:
                        plist = list(range(0, 24)) + plist
                    else:
                        # the end of the input in every part of the final 4096-byte block (a read that cannot deliver the whole
                        # final block at once must not lose its tail)
                        total0 = start + m
                        plist = sorted(set(plist + [q for q in range(0, 4096) if (total0 + q) % 4096 in range(1900, 4096, 61)]))
                else:
                    plist = list(range(0, 4096 + 16))
                for part in chunked(plist, 400):
                    jobs.append((pi, style, base, part))
    total = 0
    for res in pmap(work, chunked(jobs, max(1, len(jobs) // (NPROC * 8))), ()):
        if isinstance(res, dict):
            rep.violation({'kind': 'executor'}, res)
            continue
        n, out = res
        total += n
        for name, style, base, p, msg in out:
            rep.violation({'probe': name, 'style': style, 'kind': msg.split('\n')[0][:70]},
                          {'probe': name, 'style': style, 'base_offset': base, 'padding': p, 'message': msg})
    return rep.finish({'evaluations': total, 'distinct_nontrivial': len(PROBES) * len(STYLES) * len(bases),
                       'rule': '%d probe documents (every token kind, multi-unit constructs, text-field protocols, CIF 1.1 forms and 11 defect probes) x terminator styles %r x base offsets %r x paddings: quick = every padding that puts some byte of the probe on the next 4096-byte seam (+-8), thorough = every padding 0..4111; '
                               'padding is comment lines of at most 2000 characters rendered in the same style; line numbers are compared after subtracting the known number of added lines. non-trivial = probe x style x base cells' % (len(PROBES), STYLES, bases),
                       'samples': [PROBES[1][2], PROBES[3][2]], 'exhaustive': True},
                      ['reference = the LF-only rendering without padding of the same probe, parsed by the same library'])


if __name__ == '__main__':
    sys.exit(main())
