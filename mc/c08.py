#!/usr/bin/python3
"""C08: parse results are independent of line-terminator style and of where constructs fall relative to the parser's
4096-byte read buffer and its scan buffer.  Differential sweep: every probe document x terminator style x every padding
length that moves each byte of the probe across a buffer seam (thorough: every offset modulo 4096) x base offsets;
oracle = content and (error code, line) sequence of the LF-only, unpadded rendering."""
import sys, os, json
sys.path.insert(0, os.path.dirname(os.path.abspath(__file__)))
from lib import *

HDR2 = '#\\#CIF_2.0\n'
HDR1 = '#\\#CIF_1.1\n'
E_ACUTE, EMOJI, D7FF = '\u00e9', '\U0001F600', '\ud7ff'

PROBES = [
    ('scalars', HDR2, 'data_b\n_a 1\n_b two\n_c ?\n'),
    ('loop+text', HDR2, 'data_b\nloop_\n_a\n_b\n1 2\n;text\nfield\n;\n4\n'),
    ('triple multi-line', HDR2, "data_b\n_a '''line1\nline2'''\n_b \"\"\"x\n\ny\"\"\"\n_c z\n"),
    ('folded text', HDR2, 'data_b\n_a\n;\\\nab\\\ncd\nef\\\\\n\n;\n_b x\n'),
    ('prefixed text', HDR2, 'data_b\n_a\n;> \\\n> one\n> ;two\n> \n;\n_b x\n'),
    ('prefixed+folded', HDR2, 'data_b\n_a\n;x\\\\\nxab\\\nxcd\nx\n;\n_b 1\n'),
    ('composites', HDR2, 'data_b\n_t {\'k\':v "k2":[a b]\n\'\'\'k3\'\'\':\n;tx\n;\n}\n_l [[1 2]\n[]\n{}]\n'),
    ('unicode', HDR2, "data_b\n_a '" + E_ACUTE + EMOJI + D7FF + "'\n_b " + E_ACUTE + EMOJI + "\n_" + E_ACUTE + " x\n"),
    ('frames', HDR2, 'data_b\nsave_f\n_a 1\nsave_\n_c 3\ndata_c\n_a 2\n'),
    ('comments', HDR2, 'data_b\n# comment\n\n\n_a # trailing\n 1\n#last\n'),
    ('text with blank lines', HDR2, 'data_b\n_a\n;\n\nline\n\n;\n_b\n;x\n;\n'),
    ('semicolons', HDR2, 'data_b\n_a ;x\n_b \';\'\n_c\n;;\n;;\n;\n'),
    ('quotes at eol', HDR2, "data_b\n_a 'q'\n_b \"r\"\n_c '''s'''\n_d 't'\n"),
    ('cif1 quotes', HDR1, "data_b\n_a 'it's'\n_b [x]\n_c {y}\n_d\n;\\\nnot\\\nfolded\n;\n"),
    ('cif1 no magic', '', "data_b\n_a 'a'b'\n_b 2\n"),
    # the input begins with a line terminator; a byte-order mark precedes the version comment (the version is then decided
    # only after a first read)
    ('leading blank line', '', '\ndata_b\n_a 1\n_t\n;x\ny\n;\n_b 2\n'),
    ('leading blank lines', '', '\n\n\ndata_b\n_a\n;x\n\ny\n;\n'),
    ('bom', '\ufeff' + HDR2, 'data_b\n_a 1\n_t\n;x\ny\n;\n_b \u00e9\n'),
    # defect probes: error codes and lines must be alignment independent too
    ('err missing value', HDR2, 'data_b\n_a\n_b 2\n'),
    ('err missing endquote', HDR2, "data_b\n_a 'abc\n_b 2\n"),
    ('err dup name', HDR2, 'data_b\n_a 1\n_a 2\n_b 3\n'),
    ('err partial packet', HDR2, 'data_b\nloop_\n_a\n_b\n1 2\n3\n_c 4\n'),
    ('err unexpected delim', HDR2, 'data_b\n_a ]\n_b [1 2\n_c 3\n'),
    ('err unclosed text', HDR2, 'data_b\n_a\n;never\nclosed\n'),
    ('err disallowed char', HDR2, 'data_b\n_a x\x01y\n_b \x7f\n'),
    ('err missing space', HDR2, "data_b\n_a 'x''y'\n_b {'k':1'j':2}\n"),
    ('err no block', HDR2, '_a 1\ndata_b\n_b 2\n'),
    ('err frame', HDR2, 'data_b\nsave_f\n_a 1\ndata_c\n_b 2\n'),
    ('err reserved', HDR2, 'data_b\n_a loop_\n_b stop_\n_c global_\n'),
]

STYLES = ['LF', 'CRLF', 'CR', 'MIXED']
EOLS = {'LF': ['\n'], 'CRLF': ['\r\n'], 'CR': ['\r'], 'MIXED': ['\n', '\r', '\r\n']}     # never CR directly followed by LF: that would be one CR LF terminator


def render(text, style, k0=0):
    """replace every newline by the style's terminator (cycling for MIXED); returns bytes"""
    e = EOLS[style]
    out, k = [], k0
    for ch in text:
        if ch == '\n':
            out.append(e[k % len(e)])
            k += 1
        else:
            out.append(ch)
    return ''.join(out).encode('utf-8', 'surrogatepass')


def pad_commands(p, style):
    """executor commands appending exactly p bytes of comment lines (each at most 2000 characters) to B0.
    returns (commands, number of lines added)"""
    eol = EOLS[style][0].encode()
    cmds, lines = [], 0
    full = 2000
    while p > 0:
        n = min(p, full)
        if n <= len(eol):
            # too short for '#' + terminator: blanks are insignificant as well (at most a few)
            cmds.append('bytes.rep B0 %d 20' % n)
            p -= n
            continue
        body = n - len(eol)
        rem = p - n
        if 0 < rem <= len(eol):
            body -= (len(eol) + 1 - rem) if body > (len(eol) + 1) else 0
            n = body + len(eol)
        cmds.append('bytes.app B0 23')
        if body > 1:
            cmds.append('bytes.rep B0 %d 78' % (body - 1))
        cmds.append('bytes.app B0 %s' % eol.hex())
        lines += 1
        p -= n
    return cmds, lines


def norm_result(a, added_lines):
    if not isinstance(a, dict):
        return ('bad', repr(a))
    errs = tuple((e[0], e[1] - added_lines) for e in a['errs'])
    return (a['rc'], errs, json.dumps(a['dump'], sort_keys=True))


def opts_for(hdr):
    return ''


def work(chunk):
    ex = worker_exec('fast')
    out = []
    n = 0
    ex.run(['reset', 'cif.new C0'])
    for (pi, style, base, plist) in chunk:
        name, hdr, body = PROBES[pi]
        ref = ex.run(['bytes.set B0 %s' % render(hdr + body, 'LF').hex(), 'parse.reuse C0 B0'])[1]
        refn = norm_result(ref, 0)
        hb = render(hdr, style)
        pb = render(body, style, 1)
        for pj, p in enumerate(plist):
            cmds = []
            if pj == 0:
                # an abandoned parse comes first: its error callback rejects an error while the 4096-byte block just read ends in
                # the first byte of a two-byte character.  Nothing of that parse may reach the next one.
                cmds += ['bytes.set B5 %s' % POISON.hex(), 'parse - B5 eh=die' if (pi + base) % 2 else 'parse new:C1 B5 eh=die']
            cmds += ['bytes.set B0 %s' % hb.hex()]
            added = 0
            if base:
                # a run of full comment lines brings the probe close to a scan-buffer event
                eol = EOLS[style][0].encode()
                line = b'#' + b'y' * (1999 - len(eol)) + eol
                cnt = base // 2000
                cmds.append('bytes.rep B0 %d %s' % (cnt, line.hex()))
                added += cnt
            pc, pl = pad_commands(p, style)
            cmds += pc
            added += pl
            cmds.append('bytes.app B0 %s' % pb.hex())
            cmds.append('parse.reuse C0 B0')
            try:
                a = ex.run(cmds)[-1]
            except Crash as c:
                out.append((name, style, base, p, 'crash/hang: %s %s' % (c, c.stderr[-600:])))
                ex = worker_exec('fast')
                ex.run(['reset', 'cif.new C0'])
                continue
            n += 1
            got = norm_result(a, added)
            if got != refn:
                what = 'return code' if got[0] != refn[0] else ('error (code, line) sequence %r vs %r' % (got[1], refn[1]) if got[1] != refn[1] else 'content')
                out.append((name, style, base, p, 'differs from the LF-only unpadded parse in %s\n  got: %s\n  ref: %s' % (what, str(got)[:700], str(refn)[:700])))
    return (n, out)


TERM = {'LF': '\n', 'CR': '\r', 'CRLF': '\r\n'}
_ph = b"#\\#CIF_2.0\ndata_p\n_x 'unterminated\n_y "
POISON = _ph + b'v' * (4095 - len(_ph)) + '\u00e9'.encode() + b'\n_z 1\n'
assert POISON[4095] == 0xc3


def work_ws(chunk):
    """one whitespace run / comment of n units behind `lead` units of other content, parsed with the whitespace callback
    registered: every unit reported to it is whitespace or comment, and together the reports cover exactly the units of the
    document that are not part of a token"""
    ex = worker_exec('fast')
    out = []
    for kind, n, lead in chunk:
        if kind == 'blanks':
            run = ' ' * n
        elif kind == 'blank-lines':
            run = ('\n' * n)
        elif kind == 'mixed':
            run = (' \t\n' * (n // 3 + 1))[:n]
        else:
            run = '#' + 'c' * (n - 2) + '\n'
        pre = '#\\#CIF_2.0\ndata_b\n' + ''.join('_p%d %s\n' % (i, 'v' * 60) for i in range(lead // 66)) + '_a 1'
        doc = pre + (' ' if kind == 'comment' else '') + run + '\n_b 2\n'
        tokens = ['data_b', '_a', '1', '_b', '2'] + [t for i in range(lead // 66) for t in ('_p%d' % i, 'v' * 60)]
        want = len(doc) - sum(len(t) for t in tokens)
        try:
            a = ex.run(['reset', 'bytes.set B0 %s' % doc.encode().hex(), 'parse new:C0 B0 syn=2', 'dump C0'], timeout=120)
        except Crash as c:
            out.append((kind, '%d units behind %d' % (n, lead), 0, 0, 'crash / sanitizer report / hang: %s %s' % (c, c.stderr[-600:])))
            ex = worker_exec('fast')
            continue
        r = a[-2]
        if not isinstance(r, dict) or r.get('rc') != 0 or r.get('nerr'):
            out.append((kind, '%d units behind %d' % (n, lead), 0, 0, 'the document does not parse: %r' % (r,)))
        elif r['ws_bad'] or r['ws_total'] != want:
            out.append((kind, '%d units behind %d' % (n, lead), 0, 0, 'whitespace callback: %d report(s) with an impossible length or non-whitespace content; %d units reported in %d calls, the document has %d units outside its tokens' % (r['ws_bad'], r['ws_total'], r['ws_events'], want)))
    return (len(chunk), out)



def two_seam_doc(host, e, t1, d1, t2, d2):
    """a document in which one terminator of kind t1 starts at offset 4096 + d1 and one of kind t2 at offset 8192 + d2;
    every other terminator is of kind e.  Returns (bytes, bytes of the all-LF rendering of the same lines)"""
    E = TERM[e]
    if host == 'items':
        pre = ['#\\#CIF_2.0', 'data_b', '_a 1']
        x1, x2, post, padch, padstart = '_b 2', '_c 3', ['_e 4', '_f 5'], 'p', '#'
    else:
        pre = ['#\\#CIF_2.0', 'data_b', '_t', ';first']
        x1, x2, post, padch, padstart = 'mid one', 'mid two', ['last', ';', '_e 4'], 'q', 'z'
    lines, terms = [], []

    def add(text, term):
        lines.append(text)
        terms.append(term)
    for l in pre:
        add(l, E)

    def pad_to(target, nxt):
        # pad lines so that the line `nxt` ends (its terminator starts) exactly at offset target
        cur = sum(len(a) + len(b) for a, b in zip(lines, terms))
        room = target - cur - len(nxt)
        assert room >= 2 * (1 + len(E)), room
        n1 = min(room // 2, 1990)
        rest = room
        chunks = []
        while rest > 0:
            take = min(rest, 1990 + len(E))
            if 0 < rest - take < 1 + len(E):
                take -= (1 + len(E))
            chunks.append(take)
            rest -= take
        for c in chunks:
            add(padstart + padch * (c - len(E) - 1), E)
    pad_to(4096 + d1, x1)
    add(x1, TERM[t1])
    pad_to(8192 + d2, x2)
    add(x2, TERM[t2])
    for l in post:
        add(l, E)
    doc = ''.join(a + b for a, b in zip(lines, terms)).encode()
    ref = ''.join(a + '\n' for a in lines).encode()
    assert doc.find((x1 + TERM[t1]).encode()) + len(x1) == 4096 + d1 and doc.find((x2 + TERM[t2]).encode()) + len(x2) == 8192 + d2
    return doc, ref


def work_two(chunk):
    ex = worker_exec('fast')
    out, n = [], 0
    ex.run(['reset', 'cif.new C0'])
    refs = {}
    for cell in chunk:
        doc, ref = two_seam_doc(*cell)
        key = (cell[0], cell[3], cell[5])
        try:
            if key not in refs:
                refs[key] = norm_result(ex.run(['bytes.set B0 %s' % ref.hex(), 'parse.reuse C0 B0'])[1], 0)
            got = norm_result(ex.run(['bytes.set B0 %s' % doc.hex(), 'parse.reuse C0 B0'])[1], 0)
        except Crash as c:
            out.append(('two seams: %s' % cell[0], '%s/%s@%+d/%s@%+d' % cell[1:], 0, 0, 'crash/hang: %s %s' % (c, c.stderr[-600:])))
            ex = worker_exec('fast')
            ex.run(['reset', 'cif.new C0'])
            continue
        n += 1
        if got != refs[key]:
            what = 'return code' if got[0] != refs[key][0] else ('error (code, line) sequence %r vs %r' % (got[1], refs[key][1]) if got[1] != refs[key][1] else 'content')
            out.append(('two seams: %s' % cell[0], '%s/%s@%+d/%s@%+d' % cell[1:], 0, 0,
                        'differs from the all-LF rendering of the same lines in %s\n  got: %s\n  ref: %s' % (what, str(got)[-500:], str(refs[key])[-500:])))
    return (n, out)


def long_token_doc(kind, length, lead, e):
    """one value token of `length` characters (a token longer than half the scan buffer makes the parser re-base or enlarge it)
    after `lead` short items; returns (bytes, expected value text)"""
    E = TERM[e]
    head = '#\\#CIF_2.0' + E + 'data_b' + E + ''.join('_i%d %d%s' % (i, i, E) for i in range(lead))
    if kind == 'text':
        nl = length // 1500
        linesv = ['L%05d' % i + 'abcdefghij' * 149 + 'xyz'[:1494 - 1490] for i in range(nl)]
        linesv.append('t' * (length - sum(len(l) + 1 for l in linesv)) if length - sum(len(l) + 1 for l in linesv) > 0 else 'end')
        val = '\n'.join(linesv)
        body = '_long' + E + ';' + E.join(linesv) + E + ';' + E
    elif kind == 'triple':
        nl = length // 1500
        linesv = ['T%05d' % i + 'klmnopqrst' * 149 for i in range(nl)] + ['fin']
        val = '\n'.join(linesv)
        body = "_long '''" + E.join(linesv) + "'''" + E
    elif kind.startswith('astral'):
        # supplementary characters throughout: a surrogate pair must never be torn by a buffer fill; `lead` is a number of
        # padding characters here (it shifts every pair against the fill boundaries one unit at a time)
        unit = 'abcdefghijklmno\U0001F600'
        linesv = [(unit * 120)[:1900 + (i % 7)] for i in range(length // 1900)]
        linesv = [l if not (0xd800 <= ord(l[-1]) <= 0xdbff) else l[:-1] for l in linesv]
        val = '\n'.join(linesv)
        head = '#\\#CIF_2.0' + E + 'data_b' + E + '#' + 'p' * lead + E
        if kind == 'astral-quoted':
            val = ''.join(linesv)           # one physical line: over-length, but its content is still the value
            body = "_long '" + val + "'" + E
        else:
            body = ('_long' + E + ';' + E.join(linesv) + E + ';' + E) if kind == 'astral-text' else ("_long '''" + E.join(linesv) + "'''" + E)
    else:
        val = 'B' + 'uvw' * (length // 3)
        body = '_long ' + val + E
    return (head + body + '_after 1' + E).encode(), val


def work_long(chunk):
    ex = worker_exec('fast')
    out, n = [], 0
    for cell in chunk:
        doc, val = long_token_doc(*cell)
        script = ['reset', 'bytes.set B0 %s' % doc.hex(), 'parse new:C0 B0', 'item.get H0 %s' % U('_long'), 'blk.get C0 %s H0' % U('b'), 'item.get H0 %s' % U('_long'), 'item.get H0 %s' % U('_after'), 'item.get H0 %s' % U('_i%d' % (cell[2] - 1) if (cell[2] and not cell[0].startswith('astral')) else '_after')]
        try:
            a = ex.run(script, timeout=300)
        except Crash as c:
            if str(c).startswith('timeout'):
                # a deterministic script that ran out of time is re-run alone with a long limit before it is called a hang
                ex = worker_exec('fast')
                try:
                    a = ex.run(script, timeout=1500)
                except Crash as c2:
                    out.append(('long token', '%s/%d/%d/%s' % cell, 0, 0, 'crash/hang: %s %s' % (c2, c2.stderr[-600:])))
                    ex = worker_exec('fast')
                    continue
            else:
                out.append(('long token', '%s/%d/%d/%s' % cell, 0, 0, 'crash/hang: %s %s' % (c, c.stderr[-600:])))
                ex = worker_exec('fast')
                continue
        n += 1
        got = a[5].get('v') if isinstance(a[5], dict) else None
        codes = sorted(set(e[0] for e in a[2].get('errs', []))) if isinstance(a[2], dict) else ['?']
        expect_codes = [108] if cell[0] in ('bare', 'astral-quoted') else []      # a bare token cannot be split over lines: over-length line, content unaffected
        if not got or got.get('t') != val or a[6].get('rc') != 0 or a[7].get('rc') != 0 or codes != expect_codes:
            gt = (got or {}).get('t') or ''
            i = next((j for j in range(min(len(gt), len(val))) if gt[j] != val[j]), min(len(gt), len(val)))
            out.append(('long token', '%s/%d/%d/%s' % cell, 0, 0,
                        'a %s token of %d characters after %d items reads back differently (length %d, first difference at %d: %r vs %r), or a neighbour is lost (rc %r %r), or errors %r were reported'
                        % (cell[0], len(val), cell[2], len(gt), i, gt[i:i + 12], val[i:i + 12], a[6].get('rc'), a[7].get('rc'), codes)))
    return (n, out)


def main():
    tier = sys.argv[1] if len(sys.argv) > 1 else 'quick'
    rep = Report('C08', tier, 'exploration')
    bases = [0, 130000, 258000]        # 130000: the sweep crosses offset 131072, where the 131200-unit scan buffer is first compacted; 258000: well after it
    jobs = []
    nprobes = int(os.environ.get('C08_PROBES', len(PROBES)))
    for pi, (name, hdr, body) in enumerate(PROBES):
        if pi >= nprobes:
            break
        for style in STYLES:
            hlen = len(render(hdr, style))
            m = len(render(body, style, 1))
            for base in bases:
                if tier == 'quick':
                    start = (base // 2000) * 2000 + hlen
                    # paddings that put every byte of the probe (and a margin) on the next 4096-byte seam
                    seam = ((start // 4096) + 1) * 4096
                    lo = max(0, seam - start - m - 8)
                    hi = seam - start + 8
                    plist = list(range(lo, hi))
                    if base == 0:
                        plist = list(range(0, 24)) + plist
                    else:
                        # the end of the input in every part of the final 4096-byte block (a read that cannot deliver the whole
                        # final block at once must not lose its tail)
                        total0 = start + m
                        plist = sorted(set(plist + [q for q in range(0, 4096) if (total0 + q) % 4096 in range(1900, 4096, 61)]))
                else:
                    plist = list(range(0, 4096 + 16))
                for part in chunked(plist, 400):
                    jobs.append((pi, style, base, part))
    total = 0
    for res in pmap(work, chunked(jobs, max(1, len(jobs) // (NPROC * 8))), ()):
        if isinstance(res, dict):
            rep.violation({'kind': 'executor'}, res)
            continue
        n, out = res
        total += n
        for name, style, base, p, msg in out:
            rep.violation({'probe': name, 'style': style, 'kind': msg.split('\n')[0][:70]},
                          {'probe': name, 'style': style, 'base_offset': base, 'padding': p, 'message': msg})
    # two terminators on two different read seams, in every combination of kind and position relative to its seam
    two = [(host, e, t1, d1, t2, d2) for host in ('items', 'text') for e in ('LF', 'CR', 'CRLF') for t1 in TERM for d1 in (-2, -1, 0, 1)
           for t2 in TERM for d2 in (-2, -1, 0, 1)]
    ntwo = 0
    for res in pmap(work_two, chunked(two, max(1, len(two) // (NPROC * 2))), ()):
        if isinstance(res, dict):
            rep.violation({'kind': 'executor'}, res)
            continue
        n, out = res
        ntwo += n
        for name, style, base, p, msg in out:
            rep.violation({'probe': name, 'style': style.split('@')[0], 'kind': msg.split('\n')[0][:70]}, {'probe': name, 'cell': style, 'message': msg})
    # single tokens around and beyond the sizes at which the scan buffer (131200 units) is re-based or enlarged
    sizes = [65500, 65599, 65600, 65601, 65700, 131000, 131199, 131200, 131201, 131400, 200000, 262400, 262401, 400000]
    if tier == 'quick':
        sizes = [65599, 65601, 131199, 131201, 200000, 262401]
    longs = [(kind, L, lead, e) for kind in ('text', 'triple', 'bare') for L in sizes for lead in ((0, 40, 3000) if tier == 'quick' else (0, 1, 40, 300, 3000, 6000))
             for e in (('LF', 'CRLF') if tier == 'quick' else ('LF', 'CR', 'CRLF'))]
    longs += [(kind, 140000, pad, e) for kind in ('astral-text', 'astral-triple', 'astral-quoted') for pad in range(0, 36 if tier == 'quick' else 140) for e in (('LF',) if tier == 'quick' else ('LF', 'CRLF'))]
    nlong = 0
    for res in pmap(work_long, chunked(longs, max(1, len(longs) // (NPROC * 3))), ()):
        if isinstance(res, dict):
            rep.violation({'kind': 'executor'}, res)
            continue
        n, out = res
        nlong += n
        for name, cell, base, p, msg in out:
            rep.violation({'probe': name, 'style': cell.split('/')[0], 'kind': msg[:60]}, {'probe': name, 'cell': cell, 'message': msg})
    # whitespace runs and comments around the scan-buffer sizes, reported through the whitespace callback
    wsj = [(kind, n, lead) for kind in ('blanks', 'blank-lines', 'mixed', 'comment') for n in ((2000, 70000, 150000) if kind != 'comment' else (2000,))
           for lead in ([0, 60000, 129000, 130000, 130900, 131000, 131100, 131150, 131200, 131300] if tier == 'quick' else list(range(128000, 132000, 66)) + [0, 60000, 262000])
           if not (kind in ('blanks',) and n > 2040)]
    nws = 0
    for res in pmap(work_ws, chunked(wsj, max(1, len(wsj) // (NPROC * 2))), ()):
        if isinstance(res, dict):
            rep.violation({'kind': 'executor'}, res)
            continue
        n, out = res
        nws += n
        for name, cell, base, p, msg in out:
            rep.violation({'probe': 'whitespace ' + name, 'style': cell, 'kind': msg[:60]}, {'probe': name, 'cell': cell, 'message': msg})
    total += ntwo + nlong + nws
    return rep.finish({'evaluations': total, 'distinct_nontrivial': len(PROBES) * len(STYLES) * len(bases) + ntwo + nlong, 'two_seam_documents': ntwo, 'long_token_documents': nlong, 'whitespace_run_documents': nws,
                       'rule': '%d probe documents (every token kind, multi-unit constructs, text-field protocols, CIF 1.1 forms and 11 defect probes) x terminator styles %r x base offsets %r x paddings: quick = every padding that puts some byte of the probe on the next 4096-byte seam (+-8), thorough = every padding 0..4111; '
                               'padding is comment lines of at most 2000 characters rendered in the same style; line numbers are compared after subtracting the known number of added lines. Plus: 864 documents with one terminator (LF / CR / CR LF) starting at offset 4096-2..+1 and one at 8192-2..+1, among items and inside a text field, all other terminators in each style (reference: the all-LF rendering of the same lines); plus text fields and triple-quoted strings of 140000 units full of supplementary characters behind 0..35 (thorough 139) padding characters; plus single text-field / triple-quoted / bare tokens of 65500..400000 characters after 0..6000 leading items in each style, read back through the API and compared with the text that was generated. non-trivial = probe x style x base cells + those documents' % (len(PROBES), STYLES, bases),
                       'samples': [PROBES[1][2], PROBES[3][2]], 'exhaustive': True},
                      ['reference = the LF-only rendering without padding of the same probe, parsed by the same library'])


if __name__ == '__main__':
    sys.exit(main())
