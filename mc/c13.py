#!/usr/bin/python3
"""C13: CIF 1.1 output is pure CIF 1.1 and round-trips, or is refused (same machinery as C02 with cif_version = 1)."""
import sys, os
sys.path.insert(0, os.path.dirname(os.path.abspath(__file__)))
import c02
if __name__ == '__main__':
    sys.exit(c02.run('C13', 1, sys.argv[1] if len(sys.argv) > 1 else 'quick'))
