#!/usr/bin/python3
"""C10: number text <-> double conversions round correctly.  Drives harness/numcheck.c (in-process enumeration with the
glibc strtod/printf oracle) on 16 workers and cross-checks a slice of the oracle itself with exact rationals."""
import sys, os, subprocess, json
sys.path.insert(0, os.path.dirname(os.path.abspath(__file__)))
from lib import *
from fractions import Fraction


def oracle_selfcheck(n=4000):
    """glibc strtod against exact rational arithmetic (Python int/int division is correctly rounded) on a slice of the grid"""
    bad = []
    k = 0
    for m in range(1, 1000, 7):
        for ex in range(-330, 311, 11):
            s = '%de%d' % (m, ex)
            f = Fraction(m) * (Fraction(10) ** ex)
            try:
                want = f.numerator / f.denominator
            except OverflowError:
                continue
            got = float(s)          # CPython uses its own correctly rounded dtoa; compare both with glibc through printf
            out = subprocess.run(['printf', '%.17g', s], stdout=subprocess.PIPE).stdout.decode() if k < 25 else None
            k += 1
            if got != want or (out is not None and float(out) != want):
                bad.append(s)
    return k, bad


def long_digit_cells(tier):
    """digit strings as long as a CIF line allows, at every magnitude class: the bignum work space must hold them"""
    lens = list(range(2020, 2049)) + [600, 1000, 1500, 1800, 1900, 2000]
    if tier == 'quick':
        lens = [1000, 2000, 2030, 2039, 2040, 2041, 2044, 2046, 2047, 2048]
    cells = []
    for digits in lens:
        for ex in (308, 307, 306, 305, 300, 290, 250, 200, 100, 17, 0, -17, -100, -300, -307, -308, -320):
            for lead in ('9', '1', '5', '49'):
                for form in ('int', 'frac', 'mid', 'su'):
                    body = (lead * digits)[:digits]
                    if form == 'int':
                        s = body + 'e%d' % (ex - digits + 1)
                    elif form == 'frac':
                        s = '0.' + body[:-2] + 'e%d' % (ex + 1)
                    elif form == 'mid':
                        s = body[:digits // 2] + '.' + body[digits // 2:-1] + 'e%d' % (ex - digits // 2 + 1)
                    else:
                        s = '-' + body[:digits - 40] + 'E%+d' % (ex - (digits - 40) + 1) + '(' + body[:20] + ')'
                    if len(s) <= 2048:
                        cells.append(s)
    return cells


def work_long(chunk):
    ex = worker_exec('san')
    out, n = [], 0
    for s in chunk:
        try:
            a = ex.run(['reset', 'val.create V0 5', 'val.parsenumb V0 %s' % U(s), 'val.num1 V0', 'val.su1 V0'])
        except Crash as c:
            out.append((s, 'sanitizer report / crash: %s %s' % (c, c.stderr[c.stderr.find('SUMMARY'):][:200] or c.stderr[-300:])))
            ex = worker_exec('san')
            continue
        n += 1
        core = s.split('(')[0]
        want = float(core)
        if a[2].get('rc') != 0 or a[3].get('rc') != 0:
            out.append((s, 'parse_numb / get_number answered %r %r' % (a[2], a[3])))
        elif want not in (float('inf'), float('-inf')) and (want == 0 or abs(want) >= 2.2250738585072014e-308) and float(a[3]['num']) != want:
            out.append((s, 'value %s, correctly rounded %r' % (a[3]['num'], want)))
        elif '(' in s:
            # su scaled to the last digit of the value
            lastexp = int(core.upper().split('E')[1])
            wsu = float(s.split('(')[1].rstrip(')') + 'e%d' % lastexp)
            if wsu not in (float('inf'),) and wsu >= 2.2250738585072014e-308 and float(a[4]['num']) != wsu:
                out.append((s, 'su %s, correctly rounded %r' % (a[4]['num'], wsu)))
    return (n, out)


def main():
    tier = sys.argv[1] if len(sys.argv) > 1 else 'quick'
    rep = Report('C10', tier, 'exploration')
    e = exe('fast', 'numcheck')
    nw = NPROC
    ptier = 'light' if (os.environ.get('NORM_LIGHT') and 'c10' == 'c09') else os.environ.get('INPROC_TIER', tier)
    procs = [subprocess.Popen([e, ptier, str(nw), str(w)], stdout=subprocess.PIPE, stderr=subprocess.PIPE, text=True) for w in range(nw)]
    fam = {}
    samples = []
    for w, p in enumerate(procs):
        out, err = p.communicate()
        if p.returncode != 0:
            rep.violation({'kind': 'crash'}, {'worker': w, 'returncode': p.returncode, 'tail': out[-1500:], 'stderr': (err or '')[-3000:]})
        for line in out.split('\n'):
            if line.startswith('S '):
                _, f, ev, nt = line.split()
                d = fam.setdefault(f, [0, 0])
                d[0] += int(ev)
                d[1] += int(nt)
            elif line.startswith('V '):
                _, f, msg = line.split(' ', 2)
                # signature: family + the failing text (the specific input)
                rep.violation({'family': f, 'case': msg[:80]}, {'family': f, 'message': msg})
    cells = long_digit_cells(tier)
    nlong = 0
    for res in pmap(work_long, chunked(cells, max(1, len(cells) // (NPROC * 2))), ()):
        if isinstance(res, dict):
            rep.violation({'kind': 'executor'}, res)
            continue
        k, out = res
        nlong += k
        for text, msg in out:
            rep.violation({'family': 'long-digits', 'case': '%d characters %s...%s: %s' % (len(text), text[:12], text[-14:], msg[:60])}, {'family': 'long-digits', 'text': text, 'message': msg})
    fam['long-digits'] = [nlong, nlong]
    n, bad = oracle_selfcheck()
    if bad:
        rep.violation({'kind': 'oracle'}, {'why': 'glibc/CPython disagree with exact rational arithmetic', 'cases': bad[:10]})
    ev = sum(v[0] for v in fam.values())
    nt = sum(v[1] for v in fam.values())
    return rep.finish({'evaluations': ev, 'distinct_nontrivial': nt,
                       'rule': 'accept: ALL strings of length <= %d over "019+-.eE()x" against an independent recogniser (non-trivial = accepted strings); '
                               'grid: all mantissas of <= %d digits with the decimal point at every position x every exponent in [-330,310] against strtod; exponent-spelling: 5 mantissas x every exponent in [-330,310] x e / E x plus sign written or not x zero padding of 0..40 digits; '
                               'long-digits: digit strings of 600..2048 characters (all nines, ones, fives, 49-repeats; integer, fraction, mixed and with uncertainty) at 17 magnitudes from 1e-320 to 1e308, in the ASan/UBSan build, against CPython float(); ties: for every binade (quick: a thinned set) and 7 mantissa patterns the exact value, the exact tie with its successor, tie +-1 ulp of the last decimal digit, '
                               '17/19-digit spellings, 10^(9k) boundaries; format: init_numb/autoinit_numb over classic decimals, binade boundaries and exact decimal ties x scales x su x leading-zero limits x su rules, '
                               'oracle = exact decimal expansion (printf %%.1100f) rounded half-even by string arithmetic' % ((8 if tier == 'thorough' else 6), (5 if tier == 'thorough' else 3)),
                       'samples': ['7e22', '1.5(3)', '0.99999999999999989', 'init_numb(9.995, 0.015, scale 2, max_leading_zeroes 5)'],
                       'families': {k: {'evaluations': v[0], 'nontrivial': v[1]} for k, v in fam.items()},
                       'oracle_selfcheck_cases': n, 'exhaustive': True},
                      ['glibc strtod and printf are correctly rounded (cross-checked on a slice with exact rationals)',
                       'only zero and normal-range magnitudes are judged; default rounding mode'])


if __name__ == '__main__':
    sys.exit(main())
