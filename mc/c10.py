#!/usr/bin/python3
"""C10: number text <-> double conversions round correctly.  Drives harness/numcheck.c (in-process enumeration with the
glibc strtod/printf oracle) on 16 workers and cross-checks a slice of the oracle itself with exact rationals."""
import sys, os, subprocess, json
sys.path.insert(0, os.path.dirname(os.path.abspath(__file__)))
from lib import *
from fractions import Fraction


def oracle_selfcheck(n=4000):
    """glibc strtod against exact rational arithmetic (Python int/int division is correctly rounded) on a slice of the grid"""
    bad = []
    k = 0
    for m in range(1, 1000, 7):
        for ex in range(-330, 311, 11):
            s = '%de%d' % (m, ex)
            f = Fraction(m) * (Fraction(10) ** ex)
            try:
                want = f.numerator / f.denominator
            except OverflowError:
                continue
            got = float(s)          # CPython uses its own correctly rounded dtoa; compare both with glibc through printf
            out = subprocess.run(['printf', '%.17g', s], stdout=subprocess.PIPE).stdout.decode() if k < 25 else None
            k += 1
            if got != want or (out is not None and float(out) != want):
                bad.append(s)
    return k, bad


def main():
    tier = sys.argv[1] if len(sys.argv) > 1 else 'quick'
    rep = Report('C10', tier, 'exploration')
    e = exe('fast', 'numcheck')
    nw = NPROC
    ptier = 'light' if (os.environ.get('NORM_LIGHT') and 'c10' == 'c09') else os.environ.get('INPROC_TIER', tier)
    procs = [subprocess.Popen([e, ptier, str(nw), str(w)], stdout=subprocess.PIPE, stderr=subprocess.PIPE, text=True) for w in range(nw)]
    fam = {}
    samples = []
    for w, p in enumerate(procs):
        out, err = p.communicate()
        if p.returncode != 0:
            rep.violation({'kind': 'crash'}, {'worker': w, 'returncode': p.returncode, 'tail': out[-1500:], 'stderr': (err or '')[-3000:]})
        for line in out.split('\n'):
            if line.startswith('S '):
                _, f, ev, nt = line.split()
                d = fam.setdefault(f, [0, 0])
                d[0] += int(ev)
                d[1] += int(nt)
            elif line.startswith('V '):
                _, f, msg = line.split(' ', 2)
                # signature: family + the failing text (the specific input)
                rep.violation({'family': f, 'case': msg[:80]}, {'family': f, 'message': msg})
    n, bad = oracle_selfcheck()
    if bad:
        rep.violation({'kind': 'oracle'}, {'why': 'glibc/CPython disagree with exact rational arithmetic', 'cases': bad[:10]})
    ev = sum(v[0] for v in fam.values())
    nt = sum(v[1] for v in fam.values())
    return rep.finish({'evaluations': ev, 'distinct_nontrivial': nt,
                       'rule': 'accept: ALL strings of length <= %d over "019+-.eE()x" against an independent recogniser (non-trivial = accepted strings); '
                               'grid: all mantissas of <= %d digits with the decimal point at every position x every exponent in [-330,310] against strtod; '
                               'ties: for every binade (quick: a thinned set) and 7 mantissa patterns the exact value, the exact tie with its successor, tie +-1 ulp of the last decimal digit, '
                               '17/19-digit spellings, 10^(9k) boundaries; format: init_numb/autoinit_numb over classic decimals, binade boundaries and exact decimal ties x scales x su x leading-zero limits x su rules, '
                               'oracle = exact decimal expansion (printf %%.1100f) rounded half-even by string arithmetic' % ((7 if tier == 'thorough' else 6), (4 if tier == 'thorough' else 3)),
                       'samples': ['7e22', '1.5(3)', '0.99999999999999989', 'init_numb(9.995, 0.015, scale 2, max_leading_zeroes 5)'],
                       'families': {k: {'evaluations': v[0], 'nontrivial': v[1]} for k, v in fam.items()},
                       'oracle_selfcheck_cases': n, 'exhaustive': True},
                      ['glibc strtod and printf are correctly rounded (cross-checked on a slice with exact rationals)',
                       'only zero and normal-range magnitudes are judged; default rounding mode'])


if __name__ == '__main__':
    sys.exit(main())
