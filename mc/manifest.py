#!/usr/bin/python3
"""Generates /verif/MANIFEST.json from the table below (kept in one place so that it always validates)."""
import json, os, sys
VERIF = os.path.dirname(os.path.dirname(os.path.abspath(__file__)))

CHECKS = {
 'C20': dict(cat='exploration', tech='exhaustive enumeration of the finite result-code set against the compiled cif_errlist',
      text='All result codes defined by the current src/cif.h (58) are enumerated; for each, cif_errlist[code] of the library compiled '
           'from the working tree must exist (< cif_nerr), be non-empty, unique, and match a per-code keyword row. The space is finite, so the check is complete.',
      note='Trusts the per-code keyword table in mc/c20.py (a code without a row is reported).', ref='C20'),
}
CHECKS['C04'] = dict(cat='model_checking', tech='explicit-state BFS over API histories on the real library, lock-step Python reference model, dedup on canonical raw tables + handle slots',
      text='Breadth-first exploration of every history of real API calls up to a depth bound in four small colliding universes (containers on two CIFs; loops/items in a block and its frame; packets incl. iterator edits; destroy). After every transition the return code, the full API dump of every CIF and white-box table invariants are compared with the reference data model; states are deduplicated on a canonical form of the real SQL tables plus handle slots.',
      note='Reference model mc/model.py is trusted (diffed against the real code on the unchanged tree; disagreements classified in DESIGN.md). Bounded depth and a small alphabet of names/values; handles used only while live.', ref='C04')
CHECKS['C05'] = dict(cat='model_checking', tech='explicit-state BFS over API histories; at every reached state exhaustive application of the failing-call alphabet in 3 transaction contexts; raw-table before/after + differential follow-up oracle',
      text='At every distinct state reached by BFS over valid histories (universes of C04, depth bound) every call of a candidate alphabet that the reference model says cannot succeed is executed on the real library - plainly, and inside an open packet iterator that is then closed or aborted. The real SQL tables and transaction state before and after must be identical, the call must return an error, and a fixed follow-up sequence of valid calls must behave exactly as in the same history without the failing call.',
      note='Failing-call alphabet in mc/c05.py (offending element first/middle/last for create_loop, add_packet, iterator update; duplicates, invalid names, reserved category, empty packet, second scalar packet, destroyed loop). Which calls must fail is decided by the reference model.', ref='C05')
CHECKS['C06'] = dict(cat='model_checking', tech='explicit-state BFS over all iterator call sequences (incl. life-cycle violations) per loop shape, reference iterator life cycle, dedup on raw tables + iterator model state',
      text='For 26 loop shapes (1-3 items x 0-3 packets x ordinary/scalar x dense/sparse, with a second container whose loop numbers collide) every sequence of get_packets / next (new packet, NULL, into an existing packet) / update (9 packet shapes) / remove / close / abort / follow-up calls up to the depth bound is executed on the real library and compared with the four-state reference iterator; content is compared after every close/abort, return codes after every call.',
      note='Delivery order is unspecified: packets are matched by content. update/remove after CIF_FINISHED may answer CIF_MISUSE or act on the last packet (documentation and property disagree, both admitted).', ref='C06')
CHECKS['C14'] = dict(cat='model_checking', tech='deviation-bounded exhaustive enumeration of handler programs (all assignments of <=k non-default answers to callback invocations) on the real cif_walk, reference walker as oracle',
      text='For 9 CIF shapes every handler program with at most 2 (quick) / 3 (thorough) non-CONTINUE answers out of {SKIP_CURRENT, SKIP_SIBLINGS, END, CIF_CLIENT_ERROR, CIF_ERROR} placed at any callback invocation is executed with the real cif_walk in the ASan/UBSan build; each callback queries the handle it was given. The complete callback log, the return value and the transaction state afterwards are checked by a reference walker that knows the shape.',
      note='Sibling order is unspecified (elements matched by identity). Whether an end callback is delivered after its element or a child answered SKIP_* is not pinned down by the statement and both are admitted. Shapes have no packet-less loops.', ref='C14')
CHECKS['C19'] = dict(cat='model_checking', tech='explicit-state BFS over value/list/table/packet operation sequences on the real library under ASan/UBSan, ownership-aware Python value model, dedup on deep dumps',
      text='Breadth-first exploration of all operation sequences (create/init/copy/parse/clone/clean/free; list insert/set/get/remove at index 0, last, size, size+1 incl. the alias case and capacity steps; table and packet set/get/remove with case / NFC / NFD / empty / invalid keys; wrong-kind calls) on two owned value slots, two borrowed member references and one packet up to depth 5 (quick) / 6 (thorough). After every transition the return code and the deep dump of every live object are compared with the model; ASan/UBSan judge every execution.',
      note='The model drops borrowed references after a structural change of their container (their validity is unspecified). Table key order is compared as a set, packet name order as a sequence.', ref='C19')
CHECKS['C15'] = dict(cat='model_checking', tech='deviation-bounded exhaustive enumeration of handler programs on the real cif_parse in storing and syntax-only mode, AST reference for callback log and stored content',
      text='For 7 generated well-formed documents (scalars, loops, frames, lists/tables, comments, several blocks) every handler program with at most 3 (quick) / 4 (thorough) non-CONTINUE answers out of {SKIP_CURRENT, SKIP_SIBLINGS, END, positive code} is parsed twice on the real library - into a new CIF and syntax-only - with handler and syntax callbacks logged. A reference walking the AST in document order checks the callback sequence, item names/values, the return code, that nothing is delivered for bypassed entities or after END/error, that the stored content is exactly what was accepted, and that both modes produce the same sequence.',
      note='Where the statement is silent (end callback after a SKIP answer, existence of the empty container whose own start callback answered SKIP, effect of SKIP answered by packet_end or by an item inside a packet, content of the element in progress when END is answered) both outcomes are admitted.', ref='C15')
CHECKS['C10'] = dict(cat='exploration', engine='numcheck', tech='bounded-exhaustive enumeration of number strings and structured doubles in-process, oracle = glibc strtod / exact decimal expansion with string-arithmetic half-even rounding',
      text='Acceptance: ALL strings of length <= 6 (quick) / 7 (thorough) over the 11-character alphabet 0 1 9 + - . e E ( ) x against an independent recogniser, with the refused value checked unchanged. Text to double: every mantissa of <= 3 / 4 digits with the decimal point at every position x every exponent in [-330, 310]; for binades and 7 mantissa patterns the exact value, the exact tie with the successor, tie +- one unit in the last digit; 17/19-digit spellings; 10^(9k) boundaries - all compared bit-for-bit with strtod. Double to text: init_numb / autoinit_numb over classic decimals, binade boundaries and exact decimal ties x scales x uncertainties x leading-zero limits x su rules against exact decimal expansions rounded half-even, the documented plain/scientific rule and parse-back.',
      note='glibc strtod/printf are the trusted oracle (a slice is re-derived with exact rationals). Only zero and normal-range magnitudes are judged, default rounding mode. An su that rounds to zero may be written "(0)" or omitted.', ref='C10')
CHECKS['C09'] = dict(cat='exploration', engine='normcheck', tech='exhaustive enumeration of all Unicode code points and of all pairs/triples over an ICU-derived interesting set, in-process against the real library; ICU normaliser/case-folder as oracle',
      text='Every Unicode code point (including lone surrogates) is used as data name, block code, frame code (through the SQL layer) and table key and must be accepted exactly when an independently written CIF 2.0 character predicate allows it, with the documented INVALID_* code otherwise; cif_normalize is checked for idempotence and for equal results on NFC / NFD / reordered-mark spellings of every code point in three contexts; all ordered pairs (thorough: triples) of about 100 interesting code points are checked for the same properties and for packet / table / block / frame / item matching (lookup, duplicate creation, removal, original spelling, most recent key spelling) exactly when the normalised forms agree; length limits 2040-2050 code points with and without supplementary characters.',
      note='ICU 72 (Unicode 15) is the trusted oracle for normalisation and folding. Matching is defined through cif_normalize equality, as in the statement; tuples longer than 3 are not covered.', ref='C09')
CHECKS['C18'] = dict(cat='exploration', engine='strcheck', tech='bounded-exhaustive enumeration of all short strings over the syntactically significant alphabet, in-process; independent statistics / grammar predicates and parse-back through the real CIF 2.0 parser as oracle',
      text='All strings of length <= 4 (thorough 5) over 18 significant characters and <= 6 (thorough 8) over the quote/semicolon/newline alphabet, crossed with allow_unquoted x allow_triple_quoted x five length limits: exact statistics, admissible and usable delimiter, simple forms preferred when they fit, and - with the real limit - the string presented with the recommended delimiter in four layouts (after a name, at column 1, after another value, ending at column 2048) must be read back by cif_parse as exactly that string with the right quoting status. set_quoted(NOT_QUOTED), the scanner and cif_is_reserved_string are compared with a transcription of the CIF 2.0 grammar.',
      note='Strings longer than the bound are covered only by the a^n family around the 2048 thresholds. Text fields are presented with my own prefix-protocol encoder.', ref='C18')
CHECKS['C02'] = dict(cat='exploration', tech='bounded-exhaustive enumeration of managed CIFs (all short strings x positions, long-line threshold families, column positions, structures by different API routes) written with cif_write and re-parsed; equivalence oracle on canonical dumps',
      text='All strings of length <= 4 (thorough 5) over the 17 significant characters (no CR), stored quoted and unquoted, as scalar, first and later loop value, list element, table value and table key; 2600+ long values sweeping every writer threshold around 2048 and the fold window with blanks, semicolons, backslashes, supplementary characters at every offset; data names of 2030-2048 characters; structures built via set_value, add_packet/add_item, iterator update/remove, nested frames, non-ASCII names, deep nesting, parse-then-modify. cif_write must succeed; output must start with the 2.0 magic, be valid UTF-8 with no line over 2048, re-parse without any error callback and dump equivalent to the original.',
      note='Batches of 60 strings per CIF are bisected on failure. Equivalence exactly as stated in the property (number == unquoted string, ;-leading unquoted string may return quoted). Strings beyond the length bound are covered only by the parametrised long families.', ref='C02')
CHECKS['C13'] = dict(cat='exploration', tech='same bounded-exhaustive round-trip machinery as C02 with cif_version = 1 and a refusal oracle',
      text='All strings of length <= 4 (thorough 5) over the 12 CIF 1.1-significant characters as scalars and loop values, the long-line families, column positions and structures without lists/tables, plus non-1.1 characters: cif_write(version 1) must either refuse with CIF_DISALLOWED_CHAR (only if some string has a non-1.1 character) or CIF_DISALLOWED_VALUE (only if a list/table or a string containing newline+semicolon is present), or produce output starting with the 1.1 magic, made solely of CIF 1.1 characters, no line over 2048, that re-parses as CIF 1.1 with folding and prefix decoding enabled, without error, to an equivalent CIF.',
      note='Which refusals are admissible is decided by an oracle written from the statement; any other failure code, or success with altered content, is a violation.', ref='C13')
CHECKS['C07'] = dict(cat='exploration', tech='bounded-exhaustive enumeration of value objects x store routes x read routes on the real library; oracle = deep dump of the caller object taken before storing',
      text='Strings of length 0,1,2,255-257,511-513,5000,70000 (ASCII, BMP, supplementary, multi-line) and syntactically special strings, quoted and unquoted; 31 number spellings plain, quoted and coerced from strings; unknown / n/a; ALL lists and tables with at most 4 (thorough 5) nodes over 6 leaves incl. a quoted number, keys in NFD / empty / case variants; special composites (3000-unit key, 200 elements, depth 6). Each value is stored through set_value, add_packet, add_item and iterator update, the caller object is then overwritten and freed, and the value is read back through get_value, packet iteration and cif_walk and compared field by field (kind, text, quoted, number, su, digits, scale, sign, order, key spelling).',
      note='The parser as a store route is covered by C01. Sizes between the listed lengths are not enumerated.', ref='C07')
CHECKS['C01'] = dict(cat='exploration', tech='bounded-exhaustive enumeration of generated well-formed documents (all ordered pairs of value tokens x structures x separators, both dialects) parsed by the real cif_parse; content known by construction from an independent generator',
      text='An independent generator written from the CIF 2.0 and CIF 1.1 grammars produces every document with two value tokens over 41 content atoms (syntactically special strings, 2/3-byte and supplementary characters, embedded newlines, newline-semicolon, trailing backslash, 2040-character value) in every admissible presentation (bare, quoted, triple-quoted, text field, line-folded with and without cuts, prefixed, prefixed+folded), in 8 structures (scalars, loops, list, table with an NFD key, nested composite, save frame, two blocks), with 6 separator styles incl. comments, with and without the version comment. cif_parse must report no error and the dump (blocks, frames, loops, packets, text, quoted status, list order, key-to-value map) must equal the generating AST.',
      note='N = 2 value tokens per document (every neighbouring token pair in every context); characters outside the atom alphabet are covered through class representatives only. The generator is the trusted statement of the grammar.', ref='C01')
CHECKS['C08'] = dict(cat='exploration', tech='exhaustive differential sweep of probe documents x terminator styles x buffer alignments on the real parser; oracle = LF-only unpadded parse of the same probe',
      text='26 probe documents (every token kind, CR LF / multi-byte / surrogate constructs, triple quotes, text-field protocols, CIF 1.1 forms, 11 defect probes whose error codes and line numbers are compared too) are rendered with LF, CR LF, CR and mixed terminators and preceded by comment padding so that every byte of the probe falls on a 4096-byte read-buffer seam, at base offsets 0, 130000 (crossing the first compaction of the 131200-unit scan buffer) and 258000, and so that the end of input falls in every part of the final block; thorough: every padding 0..4111. Content and the (error code, line) sequence must equal those of the LF-only unpadded rendering.',
      note='Single tokens larger than the scan buffer are not swept here (covered for memory safety by C03/C16). Column numbers are not compared.', ref='C08')
CHECKS['C11'] = dict(cat='exploration', tech='exhaustive enumeration of the finite option x signature x encoding table on the real cif_parse; decision table transcribed from cif.h plus a differential reference parse with the dialect forced',
      text='The full cross product of 6 version-comment forms x BOM x 7 prefer_cif2 values x 6 stream encodings x force_default_encoding x 4 default_encoding_name values x 6 dialect-sensitive probes (about 22 000 parses). For every cell where cif.h determines the dialect and the decoder (and that decoder can decode the bytes) the parse must read exactly like the decoded text parsed with that dialect forced, CIF_WRONG_ENCODING must be reported exactly for CIF 2.0 content decoded by a non-UTF-8 decoder, and a byte-order mark must be accepted only as the first character of CIF 2.0 text.',
      note='Cells the documentation leaves open (UTF-16/32 without signature and without force, a version comment not followed by whitespace, bytes the prescribed decoder cannot decode) are checked for totality only. The system default converter is what ICU reports after the executor pins it.', ref='C11')
NOT_APPLICABLE = {}

def main():
    props = [json.loads(l) for l in open(os.path.join(VERIF, 'properties.jsonl'))]
    checks = []
    for p in props:
        pid = p['id']
        if pid not in CHECKS:
            continue
        c = CHECKS[pid]
        checks.append({
            'property_id': pid,
            'quick_cmd': 'bin/check %s quick' % pid,
            'thorough_cmd': 'bin/check %s thorough' % pid,
            'evidence_file': 'evidence/%s.json' % pid,
            'replay_cmd_template': 'bin/check %s replay --replay {path}' % pid,
            'engine': c.get('engine', 'cifx'),
            'level_claimed': {'category': c['cat'], 'text': c['text'], 'design_ref': 'DESIGN.md section 2, ' + c['ref']},
            'level_note': c['note'],
            'technique': c['tech'],
        })
    na = [{'property_id': p['id'], 'reason': NOT_APPLICABLE.get(p['id'], 'check not built yet (work in progress); the design in DESIGN.md section 2 applies bounded exhaustive exploration to it')}
          for p in props if p['id'] not in CHECKS]
    m = {
        'version': 1,
        'setup_cmd': 'bin/setup',
        'hooks': {'guard': 'CIF_API_VERIF', 'enable': 'no source hooks: the harness compiles /repo/src/*.c itself (mc/build.py) and passes -DCIF_API_VERIF=1, which nothing in /repo tests',
                  'baseline_off_cmd': 'make -C /repo -k check', 'source_commits': [], 'add_only': True},
        'engines': [
            {'name': 'cifx', 'path': 'harness/cifx.c', 'serves_properties': sorted(CHECKS),
             'kind_free_text': 'script executor over the real library objects compiled from the working tree; Python explorers (mc/*.py) enumerate histories / inputs / callback programs exhaustively within stated bounds and compare with reference models'},
        ],
        'checks': checks,
        'not_applicable': na,
        'notes': 'All checks rebuild the library objects from /repo working tree (content-addressed cache in build/). known_findings.json lists recorded and fixed defects.',
    }
    json.dump(m, open(os.path.join(VERIF, 'MANIFEST.json'), 'w'), indent=1)
    try:
        import jsonschema
        jsonschema.validate(m, json.load(open('/root/.vp/MANIFEST.schema.json')))
        print('MANIFEST valid; %d checks, %d not_applicable' % (len(checks), len(na)))
    except ImportError:
        print('written (jsonschema not available)')

if __name__ == '__main__':
    main()
