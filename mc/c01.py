#!/usr/bin/python3
"""C01: a well-formed CIF parses to exactly the content it denotes, whatever the layout.
Pairs (abstract content, concrete text) come from an independent generator written from the CIF 2.0 / 1.1 grammars;
every well-formed document with at most N value tokens over the stated atom, presentation, separator and structure
alphabets is parsed by the real cif_parse and its dump compared with the AST."""
import sys, os, re, itertools, json
sys.path.insert(0, os.path.dirname(os.path.abspath(__file__)))
from lib import *
from roundtrip import canon_dumpval
from model import norm

RESERVED = re.compile(r'^(data_.*|save_.*|loop_|stop_|global_)$', re.I)

ATOMS = ['a', '1.5(3)', '', 'a b', "it's", 'x"y', "''", ';', 'a;b', '\\', 'a\\', '[a]', '{a}', '#x', '_x', '$x', 'data_x', 'loop_', 'stop_', 'global_', 'save_',
         '\u00e9', '\ud7ff', '\ue000', '\ufffd', '\U0001F600', 'a\nb', 'a\n;b', 'a\\\nb', ' lead', 'trail ', "a'''b", 'a"""b', '?', '.', 'a\n', '\nb', 'a\n\nb', "'", '"',
         'q\\b\nr\\_', 'ab\\cd\nabxy\nab', 'a' * 2040, 'a' * 2047, 'b\n' + 'a' * 2048 + '\nc']
SPECIAL = [('unk',), ('na',)]


def bare_ok(t, cif2):
    if t == '' or t in ('?', '.'):
        return False
    if any(ord(c) <= 0x20 or ord(c) == 0x7f for c in t):
        return False
    if t[0] in '\'"_#$;':
        return False
    if t[0] in '[]':
        return False
    if cif2 and (any(c in '[]{}' for c in t)):
        return False
    if not cif2 and any(ord(c) > 0x7e for c in t):
        return False
    if RESERVED.match(t):
        return False
    return True


def fold_encode(text, cut, prefix='', fold=True):
    """text field body using the line-folding protocol (fold), the prefix protocol (prefix != '') or both.
    cut > 0 folds every logical line into pieces of that many characters."""
    lines = text.split('\n')
    out = [';' + prefix + ('\\' if prefix else '') + ('\\' if fold else '')]
    for ln in lines:
        pieces = [ln[i:i + cut] for i in range(0, len(ln), cut)] if (fold and cut and len(ln) > cut) else [ln]
        for p in pieces[:-1]:
            out.append(prefix + p + '\\')
        last = pieces[-1]
        if fold and re.search(r'\\[ \t]*$', last):
            # a literal backslash at the end of a logical line: fold right after it
            out.append(prefix + last + '\\')
            out.append(prefix)
        else:
            out.append(prefix + last)
    return '\n' + '\n'.join(out) + '\n;'


def presentations(t, cif2):
    """list of (style, text) for a character value; the value reads as quoted for every style but 'bare'"""
    P = []
    if bare_ok(t, cif2):
        P.append(('bare', t))
    elif t.startswith(';') and len(t) < 100 and bare_ok('x' + t[1:], cif2):
        # a whitespace-delimited value may begin with a semicolon anywhere but at the start of a line
        P.append(('bare-semi', t))
    oneline = '\n' not in t
    if cif2:
        if oneline and "'" not in t:
            P.append(('sq', "'" + t + "'"))
        if oneline and '"' not in t:
            P.append(('dq', '"' + t + '"'))
        if "'''" not in t and not t.endswith("'") and len(t) < 2000:
            P.append(('tsq', "'''" + t + "'''"))
        if '"""' not in t and not t.endswith('"') and len(t) < 2000:
            P.append(('tdq', '"""' + t + '"""'))
    else:
        ascii_ok = all(0x20 <= ord(c) <= 0x7e or c == '\t' for c in t)
        # CIF 1.1: a quote ends the string only when followed by whitespace
        if oneline and ascii_ok and not re.search(r"'[ \t]", t) and not t.endswith("'"):
            P.append(('sq', "'" + t + "'"))
        if oneline and ascii_ok and not re.search(r'"[ \t]', t) and not t.endswith('"'):
            P.append(('dq', '"' + t + '"'))
        if not all(0x20 <= ord(c) <= 0x7e or c in '\t\n' for c in t):
            return [p for p in P]
    first = t.split('\n')[0]
    marker_like = re.search(r'\\[ \t]*$', first) is not None
    no_sol_semi = '\n;' not in t
    fits = len(first) <= 2047 and all(len(ln) <= 2048 for ln in t.split('\n')[1:])      # the first line shares its line with the opening semicolon
    if no_sol_semi and (not marker_like or not cif2) and fits:
        # plain text field (in CIF 1.1 mode the protocols are not decoded, so a marker-like first line is just content)
        P.append(('text', '\n;' + t + '\n;'))
    if cif2 and len(t) < 2000:
        if no_sol_semi and not t.startswith(';'):
            P.append(('fold', fold_encode(t, 0)))
            cut = 2
            pieces_ok = all(not ln[i:i + cut].startswith(';') for ln in t.split('\n') for i in range(cut, len(ln), cut))
            if pieces_ok:
                P.append(('fold2', fold_encode(t, cut)))
        P.append(('prefix', fold_encode(t, 0, '> ', fold=False)))
        P.append(('prefix+fold', fold_encode(t, 3, 'x', fold=True)))
    return P


SEPS = [' ', '\t', '\n', '  \n ', ' #c\n', '\n# c \n\t']


def tokens(cif2, tier):
    """all value tokens: (value AST for comparison, style, text)"""
    T = []
    for t in ATOMS:
        if not cif2 and (len(t) > 100):
            continue
        for style, text in presentations(t, cif2):
            q = 0 if style in ('bare', 'bare-semi') else 1
            if not cif2 and style == 'bare' and any(c in '[]{}' for c in t):
                q = 1       # could not be presented unquoted in CIF 2.0: reported as quoted
            T.append((('s', t, q), style, text))
    T.append((('u',), 'bare', '?'))
    T.append((('a',), 'bare', '.'))
    return T


def join(parts):
    """parts: list of tokens text; tokens that start with a newline (text fields) need no separator before them"""
    return parts


def build_doc(struct, toks, sep, cif2, header):
    """returns (text, expected canonical content)"""
    v = [t[2] for t in toks]
    a = [t[0] for t in toks]

    def S(tok):
        return '' if tok.startswith('\n') else sep
    head = ('#\\#CIF_2.0\n' if cif2 else '#\\#CIF_1.1\n') if header else ''
    if struct == 'item1':
        return head + 'data_b' + sep + '_a' + S(v[0]) + v[0] + '\n', {'b': {'loops': [[('_a',), [(a[0],)]]], 'frames': {}}}
    if struct == 'item2':
        return head + 'data_b' + sep + '_a' + S(v[0]) + v[0] + sep + '_b' + S(v[1]) + v[1] + '\n', \
            {'b': {'loops': [[('_a', '_b'), [(a[0], a[1])]]], 'frames': {}}}
    if struct == 'loop1x2':
        return head + 'data_b' + sep + 'loop_' + sep + '_a' + S(v[0]) + v[0] + S(v[1]) + v[1] + '\n', \
            {'b': {'loops': [[('_a',), [(a[0],), (a[1],)]]], 'frames': {}}}
    if struct == 'loop2x1':
        # the second name is a proper prefix of the first
        return head + 'data_b' + sep + 'loop_' + sep + '_ab' + sep + '_a' + S(v[0]) + v[0] + S(v[1]) + v[1] + sep + '_z 1\n', \
            {'b': {'loops': [[('_ab', '_a'), [(a[0], a[1])]], [('_z',), [(('s', '1', 0),)]]], 'frames': {}}}
    def A(tok):
        return sep if tok.endswith('\n;') else ''      # a text field is followed by whitespace
    if struct == 'list':
        return head + 'data_b' + sep + '_a' + sep + '[' + v[0] + (S(v[1]) or A(v[0])) + v[1] + A(v[1]) + ']\n', \
            {'b': {'loops': [[('_a',), [(('l', (a[0], a[1])),)]]], 'frames': {}}}
    if struct == 'table':
        return head + 'data_b' + sep + '_a' + sep + "{'e\u0301':" + v[0] + sep + '"k 2":' + v[1] + A(v[1]) + '}\n', \
            {'b': {'loops': [[('_a',), [(('t', (('e\u0301', a[0]), ('k 2', a[1]))),)]]], 'frames': {}}}
    if struct == 'nested':
        return head + 'data_b' + sep + '_a' + sep + '[[' + v[0] + A(v[0]) + ']' + sep + "{'''k''':" + v[1] + A(v[1]) + '}]\n', \
            {'b': {'loops': [[('_a',), [(('l', (('l', (a[0],)), ('t', (('k', a[1]),)))),)]]], 'frames': {}}}
    if struct == 'frame':
        return head + 'data_b' + sep + 'save_f' + sep + '_a' + S(v[0]) + v[0] + sep + 'save_' + sep + '_b' + S(v[1]) + v[1] + '\n', \
            {'b': {'loops': [[('_b',), [(a[1],)]]], 'frames': {'f': {'loops': [[('_a',), [(a[0],)]]], 'frames': {}}}}}
    if struct == 'blocks':
        return head + 'data_b' + sep + '_a' + S(v[0]) + v[0] + sep + 'data_C' + sep + '_a' + S(v[1]) + v[1] + '\n', \
            {'b': {'loops': [[('_a',), [(a[0],)]]], 'frames': {}}, 'C': {'loops': [[('_a',), [(a[1],)]]], 'frames': {}}}
    raise ValueError(struct)


def canon_expected(e):
    def cont(c):
        return {'loops': sorted((tuple(sorted(norm(n) for n in names)), sorted(tuple(sorted(zip([norm(n) for n in names], p))) for p in packets)) for names, packets in c['loops']),
                'frames': {k: cont(v) for k, v in c['frames'].items()}}
    return {k: cont(v) for k, v in e.items()}


def canon_dump(d):
    def cont(c):
        loops = []
        for l in c['loops']:
            loops.append((tuple(sorted(norm(n) for n in l['names'])), sorted(tuple(sorted((norm(n), canon_dumpval(v)) for n, v in p)) for p in l['packets'])))
        return {'loops': sorted(loops), 'frames': {f['code']: cont(f) for f in c['frames']}}
    return {b['code']: cont(b) for b in d['blocks']}


def spec_canon(a):
    if a[0] == 's':
        return ('s', a[1], a[2])
    if a[0] in ('u', 'a'):
        return (a[0],)
    if a[0] == 'l':
        return ('l', tuple(spec_canon(x) for x in a[1]))
    return ('t', tuple(sorted((k, spec_canon(x)) for k, x in a[1])))


def canon_exp_values(e):
    def cont(c):
        return {'loops': sorted((tuple(sorted(norm(n) for n in names)), sorted(tuple(sorted(zip([norm(n) for n in names], [spec_canon(x) for x in p]))) for p in packets)) for names, packets in c['loops']),
                'frames': {k: cont(v) for k, v in c['frames'].items()}}
    return {k: cont(v) for k, v in e.items()}


STRUCTS2 = ['item2', 'loop1x2', 'loop2x1', 'list', 'table', 'nested', 'frame', 'blocks']
STRUCTS1 = ['item2', 'loop1x2', 'loop2x1', 'frame', 'blocks']


def work(chunk, cif2, tier):
    """chunk: list of (struct, index of first token); the second token ranges over all tokens"""
    ex = worker_exec('fast')
    T = tokens(cif2, tier)
    out = []
    n = 0
    distinct = 0
    ex.run(['reset', 'cif.new C0'])
    for struct, i, seps, header in chunk:
        lines, metas = [], []
        for j in range(len(T)):
            for sep in seps:
                toks = (T[i], T[j])
                if struct in ('list', 'table', 'nested') and not cif2:
                    continue
                if sep.endswith('\n') and any(tk[1] == 'bare-semi' for tk in toks):
                    continue        # at the start of a line the semicolon would open a text field
                if '\n' not in sep and (len(toks[0][2]) > 1000 or len(toks[1][2]) > 1000):
                    continue        # a long token gets a line of its own (lines must stay within 2048 characters)
                text, exp = build_doc(struct, toks, sep, cif2, header)
                if header == 'noeol':
                    text = text[:-1]        # the input ends with the last token, without a line terminator
                if max(len(l) for l in text.split('\n')) > 2048:
                    continue
                opts = '' if (cif2 and header) else ('p2=1' if cif2 else ('p2=-1' if header else ''))
                lines.append('bytes.set B0 %s' % text.encode('utf-8', 'surrogatepass').hex())
                lines.append('parse.reuse C0 B0 %s' % opts)
                metas.append((text, exp, opts))
        if not lines:
            continue
        try:
            ans = ex.run(lines)
        except Crash as c:
            out.append(('crash', struct, repr((T[i][1], T[i][0])), '%s %s' % (c, c.stderr[-800:])))
            ex = worker_exec('fast')
            ex.run(['reset', 'cif.new C0'])
            continue
        for k, (text, exp, opts) in enumerate(metas):
            a = ans[2 * k + 1]
            n += 1
            if not isinstance(a, dict):
                out.append(('driver', struct, text, repr(a)))
                continue
            want_err = 1 if (cif2 and not header) else 0       # a CIF 2.0 document without the version comment: the documented error only
            if a['rc'] != 0 or a['nerr'] != want_err:
                if not (cif2 and not header):
                    out.append(('error', struct, text, 'rc %d, error callbacks %r' % (a['rc'], a['errs'][:3])))
                    continue
            got = canon_dump(a['dump'])
            if got != canon_exp_values(exp):
                out.append(('content', struct, text, 'parsed %s\nexpected %s' % (json.dumps(got, default=str)[:700], json.dumps(canon_exp_values(exp), default=str)[:700])))
    return (n, out)


# characters that may appear in block codes, frame codes, data names and table keys: the delimiters that are ordinary inside
# a name, the first and last code point of every permitted range, and characters whose normalised form is longer
NAME_CHARS2 = ['!', '~', '[', ']', '{', '}', '#', '$', "'", '"', ';', '_', '\\', ':', ' ', 'é', 'é', '퟿', '', '﷏', 'ﷰ', '�',
               '\U00010000', '\U0001fffd', '\U00020000', '\U0010fffd', 'ß', 'ßß', 'ﬃ', 'क़', 'İ', 'ẞẞ']
NAME_CHARS1 = ['!', '~', '[', ']', '{', '}', '#', '$', "'", '"', ';', '_', '\\', ':']


def name_docs(cif2):
    """(text, expected content) for documents whose block code / frame code / data name / looped name / table key carries one
    of the name characters at its start, in its middle, at its end, or consists of it twice"""
    head = '#\\#CIF_2.0\n' if cif2 else '#\\#CIF_1.1\n'
    one = ('s', '1', 0)
    two = ('s', '2', 0)
    out = []
    for c in (NAME_CHARS2 if cif2 else NAME_CHARS1):
        for x in (c + 'x', 'x' + c + 'y', 'x' + c, c + c):
            out.append((head + 'data_%s\n_a 1\n' % x, {x: {'loops': [[('_a',), [(one,)]]], 'frames': {}}}))
            out.append((head + 'data_b\nsave_%s\n_a 1\nsave_\n_q 2\n' % x, {'b': {'loops': [[('_q',), [(two,)]]], 'frames': {x: {'loops': [[('_a',), [(one,)]]], 'frames': {}}}}}))
            out.append((head + 'data_b\n_%s 1\n_q 2\n' % x, {'b': {'loops': [[('_' + x, '_q'), [(one, two)]]], 'frames': {}}}))
            out.append((head + 'data_b\nloop_\n_%s\n_q\n1 2\n' % x, {'b': {'loops': [[('_' + x, '_q'), [(one, two)]]], 'frames': {}}}))
            if cif2:
                q = "'" if "'" not in x else ('"' if '"' not in x else "'" * 3)
                out.append((head + 'data_b\n_a {%s%s%s:1 "q":2}\n' % (q, x, q), {'b': {'loops': [[('_a',), [(('t', ((x, one), ('q', two))),)]]], 'frames': {}}}))
    return out


def work_names(chunk, cif2):
    ex = worker_exec('fast')
    out = []
    ex.run(['reset', 'cif.new C0'])
    lines = []
    for text, exp in chunk:
        lines.append('bytes.set B0 %s' % text.encode('utf-8', 'surrogatepass').hex())
        lines.append('parse.reuse C0 B0')
    try:
        ans = ex.run(lines, timeout=60)
    except Crash as c:
        return (len(chunk), [('crash', 'names', chunk[0][0], '%s %s' % (c, c.stderr[-800:]))])
    for k, (text, exp) in enumerate(chunk):
        a = ans[2 * k + 1]
        if not isinstance(a, dict):
            out.append(('driver', 'names', text, repr(a)))
        elif a['rc'] != 0 or a['nerr'] != 0:
            out.append(('error', 'names', text, 'rc %d, error callbacks %r' % (a['rc'], a['errs'][:3])))
        else:
            got = canon_dump(a['dump'])
            if got != canon_exp_values(exp):
                out.append(('content', 'names', text, 'parsed %s\nexpected %s' % (json.dumps(got, default=str)[:700], json.dumps(canon_exp_values(exp), default=str)[:700])))
    return (len(chunk), out)


OPT_ATOMS = ['a b', 'ab\ncd', 'x\\', 'a\n;b', 'q\\b\nr\\_', '', '\\']


def option_docs():
    """the line-folding and prefix protocols under every combination of the two parse options that switch them (cif.h:
    greater than zero - decode regardless of the CIF version, less than zero - never decode, zero - decode in CIF 2.0 mode).
    Expected values are stated only where the documentation is explicit: both protocols enabled, both disabled, and a field
    that uses one protocol alone with that protocol enabled."""
    out = []
    for cif2 in (True, False):
        head = '#\\#CIF_2.0\n' if cif2 else '#\\#CIF_1.1\n'
        for t in OPT_ATOMS:
            enc = []
            if '\n;' not in t and not t.startswith(';'):
                enc += [('fold', fold_encode(t, 0)), ('fold', fold_encode(t, 2))]
            enc += [('prefix', fold_encode(t, 0, '> ', fold=False)), ('both', fold_encode(t, 3, 'x', fold=True))]
            for style, text in enc:
                if style == 'fold' and any(p.startswith(';') for p in text.split('\n')[2:-1]):
                    continue
                raw = text[2:-2]
                for fm in (-1, 0, 1):
                    for pm in (-1, 0, 1):
                        f_on = (1 if cif2 else 0) + fm > 0
                        p_on = (1 if cif2 else 0) + pm > 0
                        if f_on and p_on:
                            want = t
                        elif not f_on and not p_on:
                            want = raw
                        elif style == 'fold' and f_on:
                            want = t
                        elif style == 'prefix' and p_on:
                            want = t
                        else:
                            continue
                        out.append((head + 'data_b\n_a' + text + '\n', 'fold=%d prefix=%d' % (fm, pm), {'b': {'loops': [[('_a',), [(('s', want, 1),)]]], 'frames': {}}}))
    return out


def boundary_docs():
    """layout must not matter: the same multi-line value (it has an empty line) as a text field and as a triple-quoted string, under
    each line-terminator convention, behind a comment sized so that the first terminator inside the value falls on every byte offset
    around the first three multiples of the 4096-byte read size (a CR LF pair is then cut in two by the read, or begins the next)"""
    out = []
    val = 'line1\nline2\n\nline4'
    exp = {'b': {'loops': [[('_a', '_z'), [(('s', val, 1), ('s', 'end', 0))]]], 'frames': {}}}
    for eol in ('\n', '\r\n', '\r'):
        for style in ('text', 'triple'):
            opener = ('_a' + eol + ';') if style == 'text' else "_a '''"
            closer = (eol + ';') if style == 'text' else "'''"
            for base in (4096, 8192, 12288):
                for target in range(base - 6, base + 5):
                    fixed = '#\\#CIF_2.0' + eol + 'data_b' + eol + opener + 'line1'
                    k = target - len(fixed)
                    pad = ''
                    unit = 1001 + len(eol)
                    while k - len(pad) >= unit + 1 + len(eol):
                        pad += '#' + 'c' * 1000 + eol
                    pad += '#' + 'c' * (k - len(pad) - 1 - len(eol)) + eol
                    text = '#\\#CIF_2.0' + eol + pad + 'data_b' + eol + opener + val.replace('\n', eol) + closer + eol + '_z end' + eol
                    assert text.index('line1') + 5 == target
                    out.append((text, '', exp))
    return out


def work_options(chunk):
    ex = worker_exec('fast')
    out = []
    ex.run(['reset', 'cif.new C0'])
    lines = []
    for text, opts, exp in chunk:
        lines.append('bytes.set B0 %s' % text.encode('utf-8').hex())
        lines.append('parse.reuse C0 B0 %s' % opts)
    ans = ex.run(lines, timeout=60)
    for k, (text, opts, exp) in enumerate(chunk):
        a = ans[2 * k + 1]
        if not isinstance(a, dict):
            out.append(('driver', 'options ' + opts, text, repr(a)))
        elif a['rc'] != 0 or a['nerr'] != 0:
            out.append(('error', 'options ' + opts, text, 'rc %d, error callbacks %r' % (a['rc'], a['errs'][:3])))
        else:
            got = canon_dump(a['dump'])
            if got != canon_exp_values(exp):
                out.append(('content', 'options ' + opts, text, 'parsed %s\nexpected %s' % (json.dumps(got, default=str)[:700], json.dumps(canon_exp_values(exp), default=str)[:700])))
    return (len(chunk), out)


def column_docs():
    """one loop column holding every ordered pair (and, for a subset, triple) of values of different kinds in consecutive packets:
    what one packet held must not show through in the next (the parser recycles its value objects from packet to packet)"""
    one = ('s', '1', 0)
    V = [('?', ('u',)), ('.', ('a',)), ('x', ('s', 'x', 0)), ("'q r'", ('s', 'q r', 1)), ('[]', ('l', ())), ('[a]', ('l', (('s', 'a', 0),))), ('[a b]', ('l', (('s', 'a', 0), ('s', 'b', 0)))),
         ('{}', ('t', ())), ("{'a':1}", ('t', (('a', one),))), ("{'a':1 'b':[1]}", ('t', (('a', one), ('b', ('l', (one,)))))), ("{'c':?}", ('t', (('c', ('u',)),))),
         ('[[a] {\"k\":.}]', ('l', (('l', (('s', 'a', 0),)), ('t', (('k', ('a',)),))))), ('\n;t\n;', ('s', 't', 1)), ('1.5(2)', ('s', '1.5(2)', 0))]
    head = '#\\#CIF_2.0\n'
    out = []
    def S(tok):
        return '' if tok.startswith('\n') else '\n'
    for a in V:
        for b in V:
            out.append((head + 'data_b\nloop_\n_a' + S(a[0]) + a[0] + S(b[0]) + b[0] + '\n', {'b': {'loops': [[('_a',), [(a[1],), (b[1],)]]], 'frames': {}}}))
            out.append((head + 'data_b\nloop_\n_k\n_a\n1' + S(a[0]) + a[0] + '\n1' + S(b[0]) + b[0] + '\n', {'b': {'loops': [[('_k', '_a'), [(one, a[1]), (one, b[1])]]], 'frames': {}}}))
            for c in V[:8]:
                out.append((head + 'data_b\nloop_\n_a' + S(a[0]) + a[0] + S(b[0]) + b[0] + S(c[0]) + c[0] + '\n', {'b': {'loops': [[('_a',), [(a[1],), (b[1],), (c[1],)]]], 'frames': {}}}))
    return out


CORE_ATOMS = ['a', '1.5(3)', '', "it's", 'x"y', ';', 'a\\', '[a]', 'loop_', '\u00e9\U0001F600', 'a\n;b', 'trail ', 'a\n', '?']


def core_tokens(cif2):
    """a reduced token set for three-token documents: every presentation of the core atoms, the two special values"""
    return [t for t in tokens(cif2, 'thorough') if (t[0][0] != 's' or t[0][1] in CORE_ATOMS)]


def build_doc3(struct, toks, sep, cif2):
    v = [t[2] for t in toks]
    a = [t[0] for t in toks]

    def S(tok):
        return '' if tok.startswith('\n') else sep

    def A(tok):
        return sep if tok.endswith('\n;') else ''
    head = '#\\#CIF_2.0\n' if cif2 else '#\\#CIF_1.1\n'
    if struct == 'loop1x3':
        return head + 'data_b' + sep + 'loop_' + sep + '_a' + S(v[0]) + v[0] + S(v[1]) + v[1] + S(v[2]) + v[2] + '\n', \
            {'b': {'loops': [[('_a',), [(a[0],), (a[1],), (a[2],)]]], 'frames': {}}}
    if struct == 'loop3x1':
        return head + 'data_b' + sep + 'loop_' + sep + '_a' + sep + '_b' + sep + '_c' + S(v[0]) + v[0] + S(v[1]) + v[1] + S(v[2]) + v[2] + sep + 'data_c\n', \
            {'b': {'loops': [[('_a', '_b', '_c'), [(a[0], a[1], a[2])]]], 'frames': {}}, 'c': {'loops': [], 'frames': {}}}
    if struct == 'list3':
        return head + 'data_b' + sep + '_a' + sep + '[' + v[0] + (S(v[1]) or A(v[0])) + v[1] + (S(v[2]) or A(v[1])) + v[2] + A(v[2]) + ']\n', \
            {'b': {'loops': [[('_a',), [(('l', (a[0], a[1], a[2])),)]]], 'frames': {}}}
    raise ValueError(struct)


def work3(chunk, cif2):
    ex = worker_exec('fast')
    T = core_tokens(cif2)
    out, n = [], 0
    ex.run(['reset', 'cif.new C0'])
    for struct, i, j, seps in chunk:
        lines, metas = [], []
        for k in range(len(T)):
            for sep in seps:
                toks = (T[i], T[j], T[k])
                if sep.endswith('\n') and any(tk[1] == 'bare-semi' for tk in toks):
                    continue
                text, exp = build_doc3(struct, toks, sep, cif2)
                if max(len(l) for l in text.split('\n')) > 2048:
                    continue
                opts = '' if cif2 else 'p2=-1'
                lines.append('bytes.set B0 %s' % text.encode('utf-8', 'surrogatepass').hex())
                lines.append('parse.reuse C0 B0 %s' % opts)
                metas.append((text, exp))
        if not lines:
            continue
        try:
            ans = ex.run(lines)
        except Crash as c:
            out.append(('crash', struct, repr((T[i][2], T[j][2])), '%s %s' % (c, c.stderr[-800:])))
            ex = worker_exec('fast')
            ex.run(['reset', 'cif.new C0'])
            continue
        for q, (text, exp) in enumerate(metas):
            a = ans[2 * q + 1]
            n += 1
            if not isinstance(a, dict):
                out.append(('driver', struct, text, repr(a)))
                continue
            if a['rc'] != 0 or a['nerr'] != 0:
                out.append(('error', struct, text, 'rc %d, error callbacks %r' % (a['rc'], a['errs'][:3])))
                continue
            got = canon_dump(a['dump'])
            if got != canon_exp_values(exp):
                out.append(('content', struct, text, 'parsed %s\nexpected %s' % (json.dumps(got, default=str)[:700], json.dumps(canon_exp_values(exp), default=str)[:700])))
    return (n, out)


def main():
    tier = sys.argv[1] if len(sys.argv) > 1 else 'quick'
    rep = Report('C01', tier, 'exploration')
    total, nontriv = 0, 0
    summary = {}
    for cif2 in (True, False):
        T = tokens(cif2, tier)
        structs = STRUCTS2 if cif2 else STRUCTS1
        if os.environ.get('C01_LIGHT'):
            structs = ['item2', 'table'] if cif2 else ['loop2x1']
        jobs = []
        for si, struct in enumerate(structs):
            for i in range(len(T)):
                # full separator cross product for the plain item/loop structures, one blank / one newline elsewhere
                seps = SEPS if struct in ('item2', 'loop1x2') else ([' ', '\n'] if tier == 'quick' else SEPS[:4])
                if os.environ.get('C01_LIGHT'):
                    seps = ['\n']
                jobs.append((struct, i, seps, True))
            # documents without the version comment (CIF 1.1 by default; CIF 2.0 when preferred) for one structure
        jobs += [('item2', i, [' '], False) for i in range(len(T))]
        # documents that end with their last token (no final line terminator)
        jobs += [(st, i, [' '], 'noeol') for st in ('item2', 'loop1x2') for i in range(len(T))]
        summary['cif2' if cif2 else 'cif1.1'] = {'tokens': len(T), 'structures': len(structs)}
        for res in pmap(work, chunked(jobs, max(1, len(jobs) // (NPROC * 6))), (cif2, tier)):
            if isinstance(res, dict):
                rep.violation({'kind': 'executor'}, res)
                continue
            n, out = res
            total += n
            for kind, struct, text, msg in out:
                rep.violation({'dialect': 'CIF2' if cif2 else 'CIF1.1', 'kind': kind, 'structure': struct, 'doc': text[:60] if len(text) < 300 else text[:40] + '...'},
                              {'dialect': 'CIF2' if cif2 else 'CIF1.1', 'structure': struct, 'document': text[:3000], 'message': msg})
        nontriv += len(T) * len(T)
        nd = name_docs(cif2)
        summary[('cif2' if cif2 else 'cif1.1') + ' names'] = {'documents': len(nd)}
        for res in pmap(work_names, chunked(nd, 8), (cif2,)):
            if isinstance(res, dict):
                rep.violation({'kind': 'executor'}, res)
                continue
            n, out = res
            total += n
            nontriv += n
            for kind, struct, text, msg in out:
                rep.violation({'dialect': 'CIF2' if cif2 else 'CIF1.1', 'kind': kind, 'structure': struct, 'doc': text[:60]},
                              {'dialect': 'CIF2' if cif2 else 'CIF1.1', 'structure': struct, 'document': text[:3000], 'message': msg})
        if tier != 'quick' or os.environ.get('C01_TRIPLES'):
            # three-token documents over the reduced token set: a token between two others, in a loop row, a loop column and a list
            Tc = core_tokens(cif2)
            structs3 = ['loop1x3', 'loop3x1'] + (['list3'] if cif2 else [])
            jobs3 = [(st, i, j, [' ', '\n']) for st in structs3 for i in range(len(Tc)) for j in range(len(Tc))]
            summary[('cif2' if cif2 else 'cif1.1') + ' triples'] = {'core_tokens': len(Tc), 'structures': structs3}
            for res in pmap(work3, chunked(jobs3, max(1, len(jobs3) // (NPROC * 6))), (cif2,)):
                if isinstance(res, dict):
                    rep.violation({'kind': 'executor'}, res)
                    continue
                n, out = res
                total += n
                for kind, struct, text, msg in out:
                    rep.violation({'dialect': 'CIF2' if cif2 else 'CIF1.1', 'kind': kind, 'structure': struct, 'doc': text[:60] if len(text) < 300 else text[:40] + '...'},
                                  {'dialect': 'CIF2' if cif2 else 'CIF1.1', 'structure': struct, 'document': text[:3000], 'message': msg})
            nontriv += len(Tc) ** 3
    cd = column_docs()
    summary['columns'] = {'documents': len(cd)}
    for res in pmap(work_names, chunked(cd, 40), (True,)):
        if isinstance(res, dict):
            rep.violation({'kind': 'executor'}, res)
            continue
        n, out = res
        total += n
        nontriv += n
        for kind, struct, text, msg in out:
            rep.violation({'kind': kind, 'structure': 'column', 'doc': text[:60]}, {'structure': 'column', 'document': text[:3000], 'message': msg})
    od = option_docs()
    summary['options'] = {'documents': len(od)}
    bd = boundary_docs()
    summary['read-boundary layouts'] = {'documents': len(bd)}
    od = od + bd
    for res in pmap(work_options, chunked(od, 40)):
        if isinstance(res, dict):
            rep.violation({'kind': 'executor'}, res)
            continue
        n, out = res
        total += n
        nontriv += n
        for kind, struct, text, msg in out:
            rep.violation({'kind': kind, 'structure': struct, 'doc': text[:60]}, {'structure': struct, 'document': text[:3000], 'message': msg})
    return rep.finish({'evaluations': total, 'distinct_nontrivial': nontriv,
                       'rule': 'every document with 2 value tokens: ordered pairs over all (atom, presentation) tokens (%d atoms; presentations bare, single/double quoted, triple quoted, text field, folded text field with cuts, prefixed, prefixed+folded as admissible) '
                               'in structures %s (CIF 1.1: %s), separators %r (full cross product for scalar pairs and loops), with and without the version comment; thorough: also every ordered TRIPLE over the reduced token set (all presentations of 14 core atoms) in a loop row, a loop column and a list; content known by construction from the generator; plus the names family: block code, frame code, data name, looped name and table key carrying each of %d name characters (delimiters that are ordinary inside a name, first / last code point of every permitted range, characters that grow under normalisation) at the start, in the middle, at the end and doubled. Columns family: every ordered pair (and triple, for 8 of them) of 14 values of all kinds - unknown, n/a, strings, number, lists, tables, nested, text field - in consecutive packets of one loop column. Options family: folded / prefixed / folded+prefixed text fields under all 9 combinations of line_folding_modifier and text_prefixing_modifier in both dialects, where cif.h states the outcome. Read-boundary layouts: one multi-line value as text field and triple-quoted string under LF / CR LF / CR with its first terminator at every byte offset within -6..+4 of 4096, 8192 and 12288. '
                               'non-trivial = distinct ordered token pairs' % (len(ATOMS), STRUCTS2, STRUCTS1, SEPS, len(NAME_CHARS2)),
                       'samples': ["#\\#CIF_2.0\ndata_b _a 'it''s'...", 'loop_ _a <text field> <triple quoted>'], 'dialects': summary, 'exhaustive': True},
                      ['the generator (mc/c01.py: presentations(), fold_encode(), build_doc()) is the independent statement of the grammar',
                       'a bare number-like token may be reported as CHAR or NUMB kind (text and quoted status are compared)'])


if __name__ == '__main__':
    sys.exit(main())
