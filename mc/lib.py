"""Shared driver code: executor client, parallel map, evidence / violation / known-finding handling."""
import json, os, subprocess, sys, time, hashlib, traceback
from concurrent.futures import ProcessPoolExecutor

VERIF = os.path.dirname(os.path.dirname(os.path.abspath(__file__)))
sys.path.insert(0, os.path.join(VERIF, 'mc'))
import build as _build

NPROC = int(os.environ.get('VERIF_JOBS', '16'))
SEED = int(os.environ.get('VERIF_SEED', '0') or 0)

SAN_ENV = {
    'ASAN_OPTIONS': 'detect_leaks=1:abort_on_error=0:exitcode=86:allocator_may_return_null=1:detect_stack_use_after_return=0',
    'UBSAN_OPTIONS': 'print_stacktrace=1:halt_on_error=1:exitcode=87',
    'LSAN_OPTIONS': 'exitcode=88',
}


def U(s):
    """python str -> executor token for a UTF-16 string (None -> '-')"""
    if s is None:
        return '-'
    b = s.encode('utf-16-be', 'surrogatepass')
    return 'u:' + b.hex()


def HEX(b):
    return b.hex()


class Crash(Exception):
    def __init__(self, msg, stderr, script):
        Exception.__init__(self, msg)
        self.stderr = stderr
        self.script = script


class _Timeout(Exception):
    pass


def _on_alarm(signum, frame):
    raise _Timeout()


def _arm(seconds):
    import signal
    if seconds:
        signal.signal(signal.SIGALRM, _on_alarm)
    signal.setitimer(signal.ITIMER_REAL, seconds or 0)


class Exec:
    """One persistent executor process."""

    def __init__(self, exe, timeout=None):
        self.timeout = timeout or float(os.environ.get('VERIF_SCRIPT_TIMEOUT', '60'))
        self.audit = bool(os.environ.get('VERIF_AUDIT'))
        self.base = None
        self.last_script = None
        self.exe = exe
        self.p = None
        self.errf = None
        self.nscripts = 0
        self.owner = os.getpid()

    def start(self):
        env = dict(os.environ)
        env.update(SAN_ENV)
        env['LC_ALL'] = 'C'
        self.errf = open('/dev/shm/cifx-err-%d-%d' % (os.getpid(), id(self) & 0xffff), 'w+')
        self.p = subprocess.Popen([self.exe], stdin=subprocess.PIPE, stdout=subprocess.PIPE, stderr=self.errf,
                                  env=env, bufsize=1 << 16)

    def stop(self):
        """close stdin, wait; returns (exitcode, stderr text) - a leak report shows up here"""
        if not self.p:
            return 0, ''
        try:
            self.p.stdin.close()
        except Exception:
            pass
        try:
            rc = self.p.wait(timeout=60)
        except subprocess.TimeoutExpired:
            self.p.kill()
            rc = -9
        err = self._stderr()
        self.p = None
        return rc, err

    def _stderr(self):
        try:
            self.errf.flush()
            self.errf.seek(0)
            t = self.errf.read()
            self.errf.close()
            os.unlink(self.errf.name)
        except Exception:
            t = ''
        return t

    def kill(self):
        if self.p:
            self.p.kill()
            self.p.wait()
            self._stderr()
            self.p = None

    def run(self, lines, parse=True, timeout=None):
        """execute one script; returns list of parsed answers (dict, or str starting 'ERR') and sets self.live.
        A script that does not answer within the time limit is an observation too: the executor is killed and Crash
        (kind 'timeout') is raised."""
        if not self.p:
            self.start()
            self.base = None
        if self.audit and lines and lines[0] == 'reset':
            self._audit(lines)
        self.last_script = lines
        data = ('\n'.join(lines) + '\n.\n').encode()
        _arm(timeout or self.timeout)
        try:
            try:
                self.p.stdin.write(data)
                self.p.stdin.flush()
            except (BrokenPipeError, OSError):
                return self._crashed(lines)
            out = []
            rd = self.p.stdout
            while True:
                l = rd.readline()
                if not l:
                    return self._crashed(lines)
                if l.startswith(b'. '):
                    self.live = int(l[7:])
                    break
                out.append(l)
        except _Timeout:
            self.p.kill()
            self.p.wait()
            self._stderr()
            self.p = None
            limit = timeout or self.timeout
            if lines and lines[0] == 'reset' and not getattr(self, '_retrying', False):
                # a self-contained deterministic script that ran out of time (a loaded machine?) is re-run alone, in a fresh
                # executor, with ten times the limit before it is called a hang
                self._retrying = True
                try:
                    return self.run(lines, parse=parse, timeout=limit * 10)
                finally:
                    self._retrying = False
            raise Crash('timeout: no answer within %ss (hang)' % limit, '', list(lines))
        finally:
            _arm(0)
        self.nscripts += 1
        if not parse:
            return out
        res = []
        for l in out:
            if l.startswith(b'ERR'):
                res.append(l.decode().strip())
            else:
                try:
                    res.append(json.loads(l))
                except ValueError:
                    res.append('ERR badjson ' + l.decode('latin-1')[:200])
        return res

    def _audit(self, upcoming):
        """C16: between two scripts everything is released (reset) and the ledger and the process-wide state are compared
        with their values at executor start: a difference is attributed to the script that ran before."""
        prev = self.last_script
        self.last_script = None
        saved, self.audit = self.audit, False
        try:
            a = self.run(['reset', 'env'] if self.base is not None else ['setlocale C.utf8', 'reset', 'env'])
        finally:
            self.audit = saved
        env = a[-1]
        state = (env.get('live'), env.get('locale'), env.get('round'))
        if self.base is None:
            self.base = state
            return
        if state != self.base and prev is not None:
            what = []
            if state[0] != self.base[0]:
                what.append('%d allocation(s) of the library were not released after everything was freed and destroyed' % (state[0] - self.base[0]))
            if state[1] != self.base[1]:
                what.append('the numeric locale was left at %r (it was %r)' % (state[1], self.base[1]))
            if state[2] != self.base[2]:
                what.append('the floating-point rounding mode was left at %r (it was %r)' % (state[2], self.base[2]))
            self.base = state
            raise Crash('audit: ' + '; '.join(what), 'script that ran before the audit:\n' + '\n'.join(prev[-60:]), list(prev))

    def _crashed(self, lines):
        try:
            rc = self.p.wait(timeout=30)
        except subprocess.TimeoutExpired:
            self.p.kill()
            rc = -9
        err = self._stderr()
        self.p = None
        raise Crash('executor died rc=%s' % rc, err, list(lines))


_EXE = {}


def exe(cfg, prog='cifx'):
    cfg = os.environ.get('VERIF_EXEC_CFG', cfg)      # C16 re-runs the other explorations in the sanitizer build
    k = (cfg, prog)
    if k not in _EXE:
        _EXE[k] = _build.build(cfg, prog)
    return _EXE[k]


# ---------------- parallel map over chunks ----------------
_worker_state = {}


def _call(args):
    fn, chunk, extra = args
    try:
        r = fn(chunk, *extra)
        import pickle
        pickle.dumps(r)   # an unpicklable result would hang the pool instead of failing
        return r
    except Crash as c:
        return {'crash': {'msg': str(c), 'stderr': c.stderr[-6000:], 'script': c.script[-400:]}}
    except Exception:
        return {'exception': traceback.format_exc()}


def pmap(fn, chunks, extra=(), jobs=None):
    """run fn(chunk, *extra) over chunks in a process pool; yields results in completion order"""
    jobs = jobs or NPROC
    chunks = list(chunks)
    if jobs <= 1 or len(chunks) <= 1:
        for c in chunks:
            yield _call((fn, c, extra))
        return
    with ProcessPoolExecutor(jobs) as ex:
        for r in ex.map(_call, [(fn, c, extra) for c in chunks], chunksize=1):
            yield r


def chunked(seq, n):
    buf = []
    for x in seq:
        buf.append(x)
        if len(buf) >= n:
            yield buf
            buf = []
    if buf:
        yield buf


_worker_exec = {}


def worker_exec(cfg, prog='cifx'):
    """per-process cached executor"""
    cfg = os.environ.get('VERIF_EXEC_CFG', cfg)
    k = (cfg, prog)
    e = _worker_exec.get(k)
    if e is None or e.owner != os.getpid():
        # an executor inherited through fork() belongs to the parent process: never share its pipes
        e = Exec(exe(cfg, prog))
        e.owner = os.getpid()
        _worker_exec[k] = e
    return e


def drop_worker_exec(cfg, prog='cifx'):
    cfg = os.environ.get('VERIF_EXEC_CFG', cfg)
    e = _worker_exec.pop((cfg, prog), None)
    if e:
        return e.stop()
    return 0, ''


# ---------------- evidence, violations, known findings ----------------
def load_known():
    p = os.path.join(VERIF, 'known_findings.json')
    if not os.path.exists(p):
        return []
    return json.load(open(p)).get('findings', [])


class Report:
    def __init__(self, pid, tier, level):
        self.pid, self.tier, self.level = pid, tier, level
        self.t0 = time.time()
        self.violations = []   # (signature dict, detail)
        self.known_hits = {}
        self.cov = {}
        self.assumptions = []
        self.known = [k for k in load_known() if k.get('property') == pid and k.get('status') == 'open']
        self.unstable = []

    def match_known(self, sig):
        for k in self.known:
            m = k.get('match', {})
            if all(sig.get(a) == b for a, b in m.items()):
                return k
        return None

    def violation(self, sig, detail):
        """sig: small dict identifying the failure class; detail: anything JSON-able for the replay file"""
        k = self.match_known(sig)
        if k is not None:
            self.known_hits.setdefault(k['id'], [k, 0])[1] += 1
            return False
        if len(self.violations) < 200:
            self.violations.append((sig, detail))
        else:
            self.violations.append((sig, None))
        return True

    def finish(self, coverage, assumptions=()):
        wall = time.time() - self.t0
        os.makedirs(os.path.join(VERIF, 'evidence'), exist_ok=True)
        nviol = len(self.violations)
        cov = dict(coverage)
        cov['known_findings_hit'] = {k: v[1] for k, v in self.known_hits.items()}
        ev = {'property_id': self.pid, 'tier': self.tier, 'seed': SEED, 'level': self.level, 'coverage': cov,
              'assumptions': list(assumptions) + ['ICU 72 and SQLite 3.40 as installed are trusted',
                                                  'x86-64, IEEE-754 doubles, glibc'],
              'wall_s': round(wall, 2), 'violations': nviol, 'tree': _build.tree_hash()}
        if not os.environ.get('VERIF_NO_EVIDENCE'):   # set only by bin/seedtest (runs against a deliberately broken tree)
            tmp = os.path.join(VERIF, 'evidence', self.pid + '.json.tmp')
            json.dump(ev, open(tmp, 'w'), indent=1, ensure_ascii=True, default=str)
            os.replace(tmp, os.path.join(VERIF, 'evidence', self.pid + '.json'))
        for kid, (k, n) in sorted(self.known_hits.items()):
            print('KNOWN-FINDING: property=%s %s (%s; %d cases this run)' % (self.pid, k['what'], kid, n))
        if nviol:
            d = os.path.join(VERIF, 'replays', self.pid)
            os.makedirs(d, exist_ok=True)
            seen = {}
            for sig, detail in self.violations:
                key = json.dumps(sig, sort_keys=True, default=str)
                if key in seen:
                    seen[key][0] += 1
                    continue
                if detail is None or len(seen) >= 40:
                    continue
                body = json.dumps({'property': self.pid, 'signature': sig, 'detail': detail}, indent=1, default=str)
                h = hashlib.sha1(body.encode()).hexdigest()[:12]
                path = os.path.join(d, h + '.json')
                open(path, 'w').write(body)
                seen[key] = [1, path]
            for key, (n, path) in seen.items():
                print('VIOLATION property=%s replay=%s' % (self.pid, path))
                print('  signature: %s  (%d cases)' % (key, n))
            print('%s %s: %d violation(s) in %.1fs' % (self.pid, self.tier, nviol, wall))
            return 1
        print('%s %s: held on everything explored (%.1fs) %s' % (
            self.pid, self.tier, wall, json.dumps({k: v for k, v in cov.items() if isinstance(v, (int, float, bool))})))
        return 0


def deadline(tier, quick_s=240, thorough_s=1500):
    return time.time() + float(os.environ.get('VERIF_BUDGET_S', quick_s if tier == 'quick' else thorough_s))
