#!/usr/bin/python3
"""C20: every result code of cif.h has its own, fitting message in cif_errlist (exhaustive over the finite code set)."""
import re, sys, json, subprocess, os
sys.path.insert(0, os.path.dirname(os.path.abspath(__file__)))
from lib import *
import build as _build

# one row per code: words of which at least one must occur in the message (case-insensitive).  A code defined in
# cif.h without a row here is itself reported, so the table cannot silently fall behind the header.
KEYWORDS = {
    'CIF_OK': ['no error', 'success'], 'CIF_FINISHED': ['finish', 'complete', 'end'],
    'CIF_ERROR': ['unspecified', 'general', 'unknown'], 'CIF_MEMORY_ERROR': ['memory', 'alloc'],
    'CIF_INVALID_HANDLE': ['handle'], 'CIF_INTERNAL_ERROR': ['internal'], 'CIF_ARGUMENT_ERROR': ['argument'],
    'CIF_MISUSE': ['use', 'misuse'], 'CIF_NOT_SUPPORTED': ['support'], 'CIF_ENVIRONMENT_ERROR': ['environment'],
    'CIF_CLIENT_ERROR': ['application', 'client'], 'CIF_DUP_BLOCKCODE': ['duplicate', 'block'],
    'CIF_INVALID_BLOCKCODE': ['invalid', 'block'], 'CIF_NOSUCH_BLOCK': ['no', 'block'],
    'CIF_DUP_FRAMECODE': ['duplicate', 'frame'], 'CIF_INVALID_FRAMECODE': ['invalid', 'frame'],
    'CIF_NOSUCH_FRAME': ['no', 'frame'], 'CIF_CAT_NOT_UNIQUE': ['categor', 'unique'],
    'CIF_INVALID_CATEGORY': ['categor', 'invalid'], 'CIF_NOSUCH_LOOP': ['no loop', 'loop'],
    'CIF_RESERVED_LOOP': ['scalar', 'reserved'], 'CIF_WRONG_LOOP': ['not belong', 'wrong loop'],
    'CIF_EMPTY_LOOP': ['no data', 'empty', 'no packets'], 'CIF_NULL_LOOP': ['no data names', 'no item', 'no names'],
    'CIF_DUP_ITEMNAME': ['duplicate', 'item'], 'CIF_INVALID_ITEMNAME': ['invalid', 'item'],
    'CIF_NOSUCH_ITEM': ['no item', 'item'], 'CIF_AMBIGUOUS_ITEM': ['one of', 'several', 'ambiguous'],
    'CIF_INVALID_PACKET': ['packet'], 'CIF_PARTIAL_PACKET': ['packet', 'too few'],
    'CIF_DISALLOWED_VALUE': ['value'], 'CIF_INVALID_NUMBER': ['number'], 'CIF_INVALID_INDEX': ['index'],
    'CIF_INVALID_BARE_VALUE': ['bare', 'quoted'], 'CIF_INVALID_CHAR': ['invalid', 'character'],
    'CIF_UNMAPPED_CHAR': ['unmap'], 'CIF_DISALLOWED_CHAR': ['not allowed', 'disallowed'],
    'CIF_MISSING_SPACE': ['whitespace', 'space'], 'CIF_MISSING_ENDQUOTE': ['un-terminated', 'unterminated', 'quote'],
    'CIF_UNCLOSED_TEXT': ['multi-line', 'text', 'not terminated'], 'CIF_OVERLENGTH_LINE': ['line', 'length'],
    'CIF_DISALLOWED_INITIAL_CHAR': ['first character', 'initial'], 'CIF_WRONG_ENCODING': ['encoding'],
    'CIF_NO_BLOCK_HEADER': ['outside', 'block header', 'data block'], 'CIF_FRAME_NOT_ALLOWED': ['save frame', 'disabled', 'not allowed'],
    'CIF_NO_FRAME_TERM': ['terminator', 'missing'], 'CIF_UNEXPECTED_TERM': ['terminator', 'expected'],
    'CIF_EOF_IN_FRAME': ['end of', 'inside a save frame'], 'CIF_RESERVED_WORD': ['reserved word'],
    'CIF_MISSING_VALUE': ['missing', 'value'], 'CIF_UNEXPECTED_VALUE': ['unexpected', 'value'],
    'CIF_UNEXPECTED_DELIM': ['misplaced', 'unexpected', 'delimiter'], 'CIF_MISSING_DELIM': ['missing', 'delimiter'],
    'CIF_MISSING_KEY': ['missing', 'key'], 'CIF_UNQUOTED_KEY': ['unquoted', 'key'],
    'CIF_MISQUOTED_KEY': ['text block', 'key', 'misquoted'], 'CIF_NULL_KEY': ['null', 'key'],
    'CIF_MISSING_PREFIX': ['prefix'],
}
# every keyword list is "all must match" for codes where two words discriminate siblings
ALL = {'CIF_DUP_BLOCKCODE', 'CIF_INVALID_BLOCKCODE', 'CIF_NOSUCH_BLOCK', 'CIF_DUP_FRAMECODE', 'CIF_INVALID_FRAMECODE',
       'CIF_NOSUCH_FRAME', 'CIF_DUP_ITEMNAME', 'CIF_INVALID_ITEMNAME', 'CIF_MISSING_VALUE', 'CIF_UNEXPECTED_VALUE',
       'CIF_MISSING_KEY', 'CIF_UNQUOTED_KEY', 'CIF_NULL_KEY', 'CIF_INVALID_CHAR'}


def codes_from_header():
    txt = open(os.path.join(_build.REPO, 'src', 'cif.h')).read()
    txt = re.sub(r'/\*.*?\*/', lambda m: '\n' * m.group(0).count('\n'), txt, flags=re.S)   # a commented-out #define defines nothing
    # the return-codes group: from CIF_OK up to (not including) the traversal directives
    start = txt.index('#define CIF_OK')
    end = txt.index('#define CIF_TRAVERSE_CONTINUE')
    names = [m.group(1) for m in re.finditer(r'^#define\s+(CIF_[A-Z0-9_]+)\s+\S', txt[start:end], re.M)]
    # the VALUE of each code is what the C compiler makes of its definition (052 is forty-two), not what the text looks like
    import tempfile
    os.makedirs(_build.BUILD, exist_ok=True)
    with tempfile.TemporaryDirectory(dir=_build.BUILD) as td:
        src = os.path.join(td, 'codes.c')
        with open(src, 'w') as f:
            f.write('#include <stdio.h>\n#include "cif.h"\nint main(void) {\n')
            for n in names:
                f.write('    printf("%s %%ld\\n", (long) (%s));\n' % (n, n))
            f.write('    return 0;\n}\n')
        exe_ = os.path.join(td, 'codes')
        subprocess.run(['gcc', '-I' + _build.REPO, '-I' + os.path.join(_build.REPO, 'src'), '-o', exe_, src], check=True)
        lines = subprocess.run([exe_], stdout=subprocess.PIPE, check=True).stdout.decode().split('\n')
    return [(l.split()[0], int(l.split()[1])) for l in lines if l.strip()]


def main():
    tier = sys.argv[1] if len(sys.argv) > 1 else 'quick'
    rep = Report('C20', tier, 'exploration')
    codes = codes_from_header()
    data = json.loads(subprocess.run([exe('fast', 'errlist')], stdout=subprocess.PIPE, check=True).stdout)
    nerr, lst = data['nerr'], data['list']
    samples, nontrivial = [], 0
    bycode = {}
    for name, n in codes:
        bycode.setdefault(n, []).append(name)
    for name, n in codes:
        msg = lst[n] if 0 <= n < nerr else None
        samples.append({'code': name, 'value': n, 'message': msg})
        if msg:
            nontrivial += 1
        def bad(kind, extra=None):
            rep.violation({'code': name, 'kind': kind}, {'code': name, 'value': n, 'message': msg, 'nerr': nerr, 'extra': extra})
        if len(bycode[n]) > 1:
            bad('two codes share one value', bycode[n])
        if not (0 <= n < nerr):
            bad('code not below cif_nerr'); continue
        if not msg.strip():
            bad('empty message'); continue
        if len(msg) >= 80:
            bad('message fills its 80-byte row: it is not NUL-terminated'); continue
        others = [m2 for (n2, n_) in codes if n_ != n and 0 <= n_ < nerr for m2 in [lst[n_]] if m2 == msg]
        if others:
            bad('message shared with another code')
        if name not in KEYWORDS:
            bad('code has no row in the expectation table of /verif/mc/c20.py'); continue
        kws = KEYWORDS[name]
        low = msg.lower()
        ok = all(k in low for k in kws) if name in ALL else any(k in low for k in kws)
        if not ok:
            bad('message does not describe the condition', kws)
    # entries of the table that belong to no code must be empty (a shifted table shows up here as well)
    defined = set(n for _, n in codes)
    for i, m in enumerate(lst):
        if i not in defined and m.strip():
            rep.violation({'code': 'index %d' % i, 'kind': 'message at an index that is no result code'}, {'index': i, 'message': m})
    return rep.finish({'evaluations': len(codes) + len(lst), 'distinct_nontrivial': nontrivial,
                       'rule': 'every #define CIF_<NAME> <n> of the return-codes group of the current src/cif.h (traversal '
                               'directives excluded) and every index of cif_errlist; non-trivial = code with a non-empty message',
                       'samples': samples[:8], 'exhaustive': True, 'codes': len(codes), 'cif_nerr': nerr},
                      ['the per-code keyword table in mc/c20.py is the hand-written expectation'])


if __name__ == '__main__':
    sys.exit(main())
