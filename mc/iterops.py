"""Packet-iterator operations with the reference life cycle of DESIGN.md Appendix B (used by C06 and C05)."""
import copy
from lib import U
from model import *
from apiops import Op, vlit, vdump, _rc_check


class It:
    def __init__(self, loopref, lp):
        self.loopref = loopref
        self.snapshot = copy.deepcopy(lp.packets)
        self.snapshot_names = dict(lp.names)
        self.pending = list(lp.packets)   # references to the loop's packet dicts
        self.current = None
        self.finished = False
        # refusals this iteration has seen: they change nothing observable, but the library may keep state about them
        # (savepoints), so states that differ only in this must not be merged by the search
        self.refusals = frozenset()


def _match(lp, pending, delivered):
    got = tuple(sorted((norm(n), canon_value(v)) for n, v in delivered))
    for j, p in enumerate(pending):
        exp = tuple(sorted((n, canon_value(p.get(n, UNK))) for n in lp.names))
        if exp == got:
            return j
    return None


class ItrOpen(Op):
    def lines(self):
        l, i = self.args
        return ['itr.open %s %s' % (l, i)]

    def step(self, m, ans):
        l, i = self.args
        if not hasattr(m, 'I'):
            m.I = {}
        if not m.l_live(l):
            return _rc_check({INVALID_HANDLE}, ans[0], repr(self) + ' on a loop that no longer exists')
        ci, c, lp = m.L[l]
        if len(lp.packets) == 0:
            return _rc_check({EMPTY_LOOP}, ans[0], repr(self) + ' on a loop without packets')
        p = _rc_check({OK}, ans[0], repr(self))
        if not p:
            m.I[i] = It(m.L[l], lp)
        return p


class ItrOpenSecond(Op):
    """a second iterator requested on the same CIF while one is open: the library keeps one transaction per CIF and refuses
    with CIF_ERROR; the refusal must leave the first iterator and what was done through it alone"""

    def lines(self):
        l, i = self.args
        return ['itr.open %s %s' % (l, i)]

    def step(self, m, ans):
        return _rc_check({ERROR}, ans[0], repr(self) + ' while another iterator is open on the same CIF')


class ItrNext(Op):
    """mode: 'new' (fresh packet returned), 'null' (packet argument NULL), 'into' (existing packet holding a foreign item), 'empty' (existing packet without items)"""

    def lines(self):
        i, mode = self.args
        if mode == 'new':
            return ['itr.next %s' % i]
        if mode == 'null':
            return ['itr.next %s -' % i]
        if mode == 'empty':
            # a packet just created without names, never touched
            return ['pkt.create P2 0', 'itr.next %s P2' % i, 'pkt.dump P2']
        return ['pkt.create P2 0', 'pkt.set P2 %s %s' % (U('_zz'), vlit('V1')), 'pkt.set P2 %s %s' % (U('_a'), vlit('V3')),
                'itr.next %s P2' % i, 'pkt.dump P2']

    def step(self, m, ans):
        i, mode = self.args
        it = m.I[i]
        ci, c, lp = it.loopref
        a = ans[3] if mode == 'into' else (ans[1] if mode == 'empty' else ans[0])
        if not it.pending:
            p = _rc_check({FINISHED}, a, repr(self) + ' with every packet already delivered')
            if not p:
                it.finished = True
            return p
        p = _rc_check({OK}, a, repr(self) + ' with %d packet(s) not yet delivered' % len(it.pending))
        if p:
            return p
        if mode == 'null':
            if len(it.pending) != 1 and len(set(repr(sorted(q.items())) for q in it.pending)) != 1:
                return ['driver error: ambiguous delivery']
            it.current = it.pending.pop(0)
            return []
        delivered = a['p'] if mode == 'new' else (ans[2] if mode == 'empty' else ans[4])
        if delivered is None:
            return ['%r: no packet content returned' % (self,)]
        j = _match(lp, it.pending, delivered)
        if j is None:
            return ['%r: delivered packet %r is not one of the packets still to be delivered %r (each packet exactly once, '
                    'with a value for every item of the loop and nothing else)' % (self, delivered, it.pending)]
        it.current = it.pending.pop(j)
        return []


class ItrUpdate(Op):
    def lines(self):
        i, upd = self.args
        out = ['pkt.create P1 0']
        for n, v in upd:
            out.append('pkt.set P1 %s %s' % (U(n), vlit(v)))
        out.append('itr.update %s P1' % i)
        return out

    def step(self, m, ans):
        i, upd = self.args
        it = m.I[i]
        ci, c, lp = it.loopref
        a = ans[-1]
        eff = {}
        for n, v in upd:
            eff[norm(n)] = vdump(v) if v is not None else UNK
        if it.current is None:
            return _rc_check({MISUSE}, a, repr(self) + ' without a current packet')
        foreign = any(n not in lp.names for n in eff)
        if it.finished:
            # cif.h calls this an error, the property lets it act on the last delivered packet: either is admissible
            if a.get('rc') == MISUSE:
                return []
        if foreign:
            it.refusals = it.refusals | {('wrong-loop', min(len(eff), 2), list(eff)[0] in lp.names)}
            return _rc_check({WRONG_LOOP}, a, repr(self) + ' naming an item of another loop')
        p = _rc_check({OK}, a, repr(self))
        if not p:
            it.current.update(eff)
        return p


class ItrRemove(Op):
    def lines(self):
        return ['itr.remove %s' % self.args[0]]

    def step(self, m, ans):
        it = m.I[self.args[0]]
        ci, c, lp = it.loopref
        a = ans[0]
        if it.current is None:
            return _rc_check({MISUSE}, a, repr(self) + ' without a current packet')
        if it.finished and a.get('rc') == MISUSE:
            return []
        p = _rc_check({OK}, a, repr(self))
        if not p:
            lp.packets = [q for q in lp.packets if q is not it.current]
            it.current = None
        return p


class ItrEnd(Op):
    def lines(self):
        i, how = self.args
        return ['itr.%s %s' % (how, i)]

    def step(self, m, ans):
        i, how = self.args
        it = m.I.pop(i)
        ci, c, lp = it.loopref
        p = _rc_check({OK}, ans[0], repr(self))
        if how == 'abort':
            lp.packets = it.snapshot
        return p
