#!/usr/bin/python3
"""C17: a failed memory allocation yields an error code, not a crash or corruption.
For every scenario (one public API call on prepared arguments) and every allocator domain (library + uthash through
--wrap'ed malloc/calloc/realloc/strdup; SQLite through SQLITE_CONFIG_MALLOC; ICU through u_setMemoryFunctions) the
call is first executed without fault, then once for EVERY k = 1, 2, ... with the k-th allocation request made while the
call is executing failing, until an execution completes without reaching the armed request.  ASan/UBSan build; the
executor opens the fault gate only around the API call under test (harness/cifx.c: API())."""
import sys, os, re, json
sys.path.insert(0, os.path.dirname(os.path.abspath(__file__)))
os.environ['CIFX_ALLOCATORS'] = '1'
from lib import *
from roundtrip import lit

OK, FINISHED, ERROR, MEMORY = 0, 1, 2, 3
DOMAINS = {0: 'library', 1: 'sqlite', 2: 'icu'}

S_ = ('s', 'text value', True)
N_ = ('n', '1.250(25)')
L_ = ('l', [('s', 'a', True), ('n', '2'), ('l', [('u',), ('a',)]), ('t', [('k', ('s', 'v', False))])])
T_ = ('t', [('key', ('s', 'a', True)), ('K2', ('l', [('n', '1'), ('n', '2')])), ('\u00e9', ('t', [('in', ('a',))]))])

BASE = ['cif.new C0', 'blk.create C0 %s H0' % U('b1'), 'item.set H0 %s %s' % (U('_s'), lit(S_)), 'item.set H0 %s %s' % (U('_n'), lit(N_)),
        'item.set H0 %s %s' % (U('_l'), lit(L_)), 'item.set H0 %s %s' % (U('_t'), lit(T_)),
        'loop.create H0 %s 3 %s %s %s L0' % (U('cat'), U('_a'), U('_b'), U('_c')),
        'pkt.create P0 3 %s %s %s' % (U('_a'), U('_b'), U('_c')),
        'pkt.set P0 %s %s' % (U('_a'), lit(('n', '1'))), 'pkt.set P0 %s %s' % (U('_b'), lit(S_)), 'pkt.set P0 %s %s' % (U('_c'), lit(L_)), 'loop.addpkt L0 P0',
        'pkt.set P0 %s %s' % (U('_a'), lit(('n', '2'))), 'pkt.set P0 %s %s' % (U('_c'), lit(T_)), 'loop.addpkt L0 P0',
        'pkt.set P0 %s %s' % (U('_a'), lit(('n', '3'))), 'pkt.set P0 %s ?' % U('_c'), 'loop.addpkt L0 P0',
        'frm.create H0 %s H1' % U('f1'), 'item.set H1 %s %s' % (U('_fx'), lit(S_)),
        'loop.create H1 %s 1 %s L1' % (U('fc'), U('_fl')), 'blk.create C0 %s H2' % U('b2'),
        'val.new V0 %s' % lit(S_), 'val.new V1 %s' % lit(N_), 'val.new V2 %s' % lit(L_), 'val.new V3 %s' % lit(T_), 'val.create V4 5']

DOC = ("#\\#CIF_2.0\ndata_d1\n_x 1.5(2)\n_y 'q s'\n_z [1 [2 a] {'k':v \"k2\":[x]}]\n_t\n;\\\nfol\\\nded\n;\nloop_\n_l1 _l2 _L3\n1 a ?\n2 'b c' .\n3 \"\"\"tq\n\"\"\" [1]\n"
       "save_fr\n_fx {'a':1}\nloop_ _fy 1 2 3\nsave_\ndata_d2\n_q \u00e9\u0301\n").encode('utf-8')
DOC1 = b"#\\#CIF_1.1\ndata_d1\n_x 1.5(2)\n_y 'q s'\n_t\n;pre\\\n;\nloop_\n_l1 _l2\n1 a\n2 'b c'\nsave_fr _fx 1 save_\n"
BADDOC = b"data_d1\n_x 1 2\n_y 'unterminated\n_z [1 2\ndata_d1\n_x 3\n_x 4\nloop_ _a _b 1 2 3\n"

# observation commands by category
CIF_OBS = ['dump C0', 'autocommit C0']
SC = []
BIG = None      # (table size, packet size) just below a uthash bucket expansion, probed at start
TIER = 'quick'


def S(name, call, setup=(), obs=CIF_OBS, modifies=True, same_after_retry=True, after=(), base=True, retry=True, incremental=False, iterator=False, min_allocs=0):
    """obs: observation commands whose answers describe the state the call may change / must leave alone.
    modifies: the call is meant to change what obs shows (so a failed call must leave obs as before the call).
    same_after_retry: after fault + retry the observations must equal the fault-free ones."""
    SC.append(dict(name=name, call=call, setup=(BASE if base else []) + list(setup), obs=list(obs), modifies=modifies,
                   same=same_after_retry, after=list(after), retry=retry, incremental=incremental, iterator=iterator, min_allocs=min_allocs))


def scenarios():
    u = U
    S('cif_create', 'cif.new C1', obs=['dump C0'], base=False, setup=['cif.new C0'], modifies=False, same_after_retry=False)
    S('cif_destroy', 'cif.destroy C0', obs=[], modifies=False, retry=False)
    S('cif_create_block', 'blk.create C0 %s H3' % u('nb'))
    S('cif_create_block (no handle)', 'blk.create C0 %s -' % u('nb'))
    S('cif_create_block (duplicate)', 'blk.create C0 %s H3' % u('B1'), modifies=False)
    S('cif_get_block', 'blk.get C0 %s H3' % u('B1'), modifies=False)
    S('cif_get_block (absent)', 'blk.get C0 %s H3' % u('zz'), modifies=False)
    S('cif_get_all_blocks', 'blk.all C0', modifies=False)
    S('cif_container_create_frame', 'frm.create H0 %s H3' % u('nf'))
    S('cif_container_create_frame (nested)', 'frm.create H1 %s H3' % u('nf'))
    S('cif_container_get_frame', 'frm.get H0 %s H3' % u('F1'), modifies=False)
    S('cif_container_get_all_frames', 'frm.all H0', modifies=False)
    S('cif_container_get_code', 'cont.code H1', modifies=False)
    S('cif_container_destroy (block with frame and loops)', 'cont.destroy H0', retry=False)
    S('cif_container_destroy (frame)', 'cont.destroy H1', retry=False)
    S('cif_container_create_loop (1 name)', 'loop.create H2 %s 1 %s L2' % (u('c2'), u('_q')))
    S('cif_container_create_loop (3 names, no category, no handle)', 'loop.create H2 - 3 %s %s %s -' % (u('_q'), u('_r'), u('_\u00e9')))
    S('cif_container_create_loop (duplicate item)', 'loop.create H0 - 2 %s %s L2' % (u('_q'), u('_S')), modifies=False)
    S('cif_container_get_category_loop', 'loop.getcat H0 %s L2' % u('cat'), modifies=False)
    S('cif_container_get_category_loop (scalars)', 'loop.getcat H0 %s L2' % u(''), modifies=False)
    S('cif_container_get_item_loop', 'loop.getitem H0 %s L2' % u('_B'), modifies=False)
    S('cif_container_get_all_loops', 'loop.all H0', modifies=False)
    S('cif_container_prune', 'cont.prune H0', setup=['loop.create H0 %s 1 %s L2' % (u('e'), u('_e1'))])
    for nm, vl in (('char', S_), ('numb', N_), ('list', L_), ('table', T_)):
        S('cif_container_get_value (%s, new value)' % nm, 'item.get H0 %s' % u('_s' if nm == 'char' else '_' + nm[0]), modifies=False)
    S('cif_container_get_value (into existing value)', 'item.get H0 %s V2' % u('_t'), modifies=False, obs=CIF_OBS)
    S('cif_container_get_value (loop item)', 'item.get H0 %s' % u('_c'), modifies=False)
    for nm, tok in (('char', 'V0'), ('numb', 'V1'), ('list', 'V2'), ('table', 'V3'), ('unknown', 'V4'), ('NULL', '-')):
        S('cif_container_set_value (new scalar, %s)' % nm, 'item.set H2 %s %s' % (u('_new'), tok))
        S('cif_container_set_value (existing scalar, %s)' % nm, 'item.set H0 %s %s' % (u('_S'), tok))
    S('cif_container_set_value (all packets of a loop item)', 'item.set H0 %s V2' % u('_b'))
    S('cif_container_remove_item (scalar)', 'item.remove H0 %s' % u('_s'))
    S('cif_container_remove_item (loop item)', 'item.remove H0 %s' % u('_B'))
    S('cif_container_remove_item (last item of its loop)', 'item.remove H1 %s' % u('_fl'))
    S('cif_loop_get_category', 'loop.cat L0', modifies=False)
    S('cif_loop_set_category', 'loop.setcat L0 %s' % u('other'))
    S('cif_loop_set_category (NULL)', 'loop.setcat L0 -')
    S('cif_loop_get_names', 'loop.names L0', modifies=False)
    S('cif_loop_add_item (default value)', 'loop.additem L0 %s V2' % u('_d'))
    S('cif_loop_add_item (NULL value)', 'loop.additem L0 %s -' % u('_d'))
    S('cif_loop_add_item (duplicate)', 'loop.additem L0 %s V0' % u('_S'), modifies=False)
    S('cif_loop_add_packet', 'loop.addpkt L0 P0')
    S('cif_loop_add_packet (partial packet)', 'loop.addpkt L0 P1', setup=['pkt.create P1 1 %s' % u('_b')])
    S('cif_loop_add_packet (first packet)', 'loop.addpkt L1 P1', setup=['pkt.create P1 1 %s' % u('_fl'), 'pkt.set P1 %s V3' % u('_fl')])
    S('cif_loop_destroy', 'loop.destroy L0', retry=False)
    S('cif_loop_get_packets', 'itr.open L0 I0', modifies=False, retry=False)
    it = ['itr.open L0 I0']
    # while an iterator is open no second iterator can be obtained, so the CIF is observed only after releasing it
    fin = ['itr.abort I0', 'dump C0', 'autocommit C0']
    S('cif_pktitr_next_packet (new packet)', 'itr.next I0', setup=it, modifies=False, obs=[], after=fin, iterator=True)
    S('cif_pktitr_next_packet (into existing packet)', 'itr.next I0 P0', setup=it, modifies=False, obs=['pkt.dump P0'], after=fin, iterator=True)
    S('cif_pktitr_next_packet (second)', 'itr.next I0 P0', setup=it + ['itr.next I0'], modifies=False, obs=['pkt.dump P0'], after=fin, iterator=True)
    S('cif_pktitr_next_packet (into a packet lacking two of the items)', 'itr.next I0 P1', setup=it + ['pkt.create P1 1 %s' % u('_b')], modifies=False, obs=['pkt.dump P1'], after=fin, iterator=True)
    S('cif_pktitr_next_packet (into an empty packet)', 'itr.next I0 P1', setup=it + ['pkt.create P1 0'], modifies=False, obs=['pkt.dump P1'], after=fin, iterator=True)
    S('cif_pktitr_next_packet (into a packet of another loop)', 'itr.next I0 P1', setup=it + ['pkt.create P1 2 %s %s' % (u('_fl'), u('_zz')), 'pkt.set P1 %s V2' % u('_fl')], modifies=False, obs=['pkt.dump P1'], after=fin, iterator=True)
    # the LAST packet of the loop (the statement has reached its end when the packet is handed over), into packets that lack items
    S('cif_pktitr_next_packet (last packet, into a packet lacking two of the items)', 'itr.next I0 P1', setup=it + ['itr.next I0', 'itr.next I0', 'pkt.create P1 1 %s' % u('_b')], modifies=False, obs=['pkt.dump P1'], after=['itr.next I0'] + fin, iterator=True)
    S('cif_pktitr_next_packet (last packet, into an empty packet)', 'itr.next I0 P1', setup=it + ['itr.next I0', 'itr.next I0', 'pkt.create P1 0'], modifies=False, obs=['pkt.dump P1'], after=fin, iterator=True)
    S('cif_pktitr_next_packet (last packet, new packet)', 'itr.next I0', setup=it + ['itr.next I0', 'itr.next I0'], modifies=False, obs=[], after=fin, iterator=True)
    S('cif_pktitr_next_packet (NULL)', 'itr.next I0 -', setup=it, modifies=False, obs=[], after=fin, iterator=True)
    S('cif_pktitr_update_packet', 'itr.update I0 P1', setup=it + ['itr.next I0', 'pkt.create P1 2 %s %s' % (u('_b'), u('_c')), 'pkt.set P1 %s V3' % u('_b'), 'pkt.set P1 %s V1' % u('_c')],
      obs=[], after=['itr.close I0', 'dump C0', 'autocommit C0'], iterator=True)
    S('cif_pktitr_remove_packet', 'itr.remove I0', setup=it + ['itr.next I0'], obs=[], after=['itr.close I0', 'dump C0', 'autocommit C0'], retry=False, iterator=True)
    S('cif_pktitr_close', 'itr.close I0', setup=it + ['itr.next I0', 'itr.remove I0'], obs=[], retry=False, after=CIF_OBS, iterator=True)
    S('cif_pktitr_abort', 'itr.abort I0', setup=it + ['itr.next I0', 'itr.remove I0'], obs=[], retry=False, after=CIF_OBS, iterator=True)
    # packets (no CIF involved)
    PK = ['pkt.dump P0']
    S('cif_packet_create (3 names)', 'pkt.create P1 3 %s %s %s' % (u('_a'), u('_\u00c9'), u('_c')), obs=[], modifies=False, after=['pkt.dump P1'], base=False)
    S('cif_packet_create (no names)', 'pkt.create P1 0', obs=[], modifies=False, base=False)
    S('cif_packet_create (invalid name)', 'pkt.create P1 2 %s %s' % (u('_a'), u('b c')), obs=[], modifies=False, base=False)
    S('cif_packet_create (duplicate names)', 'pkt.create P1 3 %s %s %s' % (u('_a'), u('_b'), u('_A')), obs=[], modifies=False, base=False)
    for nm, tok in (('char', 'V0'), ('list', 'V2'), ('table', 'V3'), ('NULL', '-')):
        S('cif_packet_set_item (new item, %s)' % nm, 'pkt.set P0 %s %s' % (u('_new'), tok), obs=PK)
        S('cif_packet_set_item (existing item, %s)' % nm, 'pkt.set P0 %s %s' % (u('_B'), tok), obs=PK)
    S('cif_packet_get_item', 'pkt.get P0 %s R0' % u('_C'), obs=PK, modifies=False)
    S('cif_packet_remove_item (hand over)', 'pkt.remove P0 %s V5' % u('_C'), obs=PK, retry=False)
    S('cif_packet_remove_item (discard)', 'pkt.remove P0 %s -' % u('_C'), obs=PK, retry=False)
    S('cif_packet_get_names', 'pkt.names P0', obs=[], modifies=False)
    # values
    for kind in range(6):
        S('cif_value_create (kind %d)' % kind, 'val.create V5 %d' % kind, obs=[], modifies=False, after=['val.dump V5'], base=False)
        S('cif_value_init (kind %d over a table)' % kind, 'val.init V3 %d' % kind, obs=['val.dump V3'], same_after_retry=True)
    for i, nm in enumerate(('char', 'numb', 'list', 'table', 'unknown')):
        S('cif_value_clone (%s, new)' % nm, 'val.clone V%d V5' % i, obs=['val.dump V%d' % i], modifies=False, after=['val.dump V5'])
        S('cif_value_clone (%s, into an existing list)' % nm, 'val.clone V%d V5 into' % i, setup=['val.new V5 %s' % lit(L_)], obs=['val.dump V%d' % i], modifies=False, after=['val.dump V5'])
        S('cif_value_get_text (%s)' % nm, 'val.text V%d' % i, obs=['val.dump V%d' % i], modifies=False)
    S('cif_value_copy_char', 'val.copychar V2 %s' % u('new text \U0001f600'), obs=['val.dump V2'])
    S('cif_value_init_char', 'val.initchar V3 %s' % u('new text'), obs=['val.dump V3'])
    S('cif_value_parse_numb', 'val.parsenumb V2 %s' % u('-12.50e+3(15)'), obs=['val.dump V2'])
    S('cif_value_parse_numb (not a number)', 'val.parsenumb V2 %s' % u('12a'), obs=['val.dump V2'], modifies=False)
    S('cif_value_init_numb', 'val.initnumb V3 12.5 0.25 2 5', obs=['val.dump V3'])
    S('cif_value_init_numb (scientific)', 'val.initnumb V3 1.25e-20 2e-22 22 5', obs=['val.dump V3'])
    S('cif_value_autoinit_numb', 'val.autoinit V2 17.125 0.5 19', obs=['val.dump V2'])
    S('cif_value_get_number (number)', 'val.num1 V1', obs=['val.dump V1'], modifies=False)
    S('cif_value_get_su (number)', 'val.su1 V1', obs=['val.dump V1'], modifies=False)
    S('cif_value_get_su (char coerced)', 'val.su1 V5', setup=['val.new V5 %s' % lit(('s', '12.5(3)', False))], obs=[], modifies=False, after=['val.dump V5'], same_after_retry=False)
    S('cif_value_get_number (char coerced)', 'val.num1 V5', setup=['val.new V5 %s' % lit(('s', '12.5(3)', False))], obs=[], modifies=False, after=['val.dump V5'], same_after_retry=False)
    S('cif_value_get_number (char, not numeric)', 'val.num1 V0', obs=['val.dump V0'], modifies=False)
    S('cif_value_set_quoted (number -> quoted)', 'val.setquoted V1 1', obs=['val.dump V1'])
    S('cif_value_set_quoted (numeric char -> unquoted)', 'val.setquoted V5 0', setup=['val.new V5 %s' % lit(('s', '12.5(3)', True))], obs=['val.dump V5'])
    S('cif_value_get_element_count', 'val.count V2', obs=['val.dump V2'], modifies=False)
    S('cif_value_get_element_at', 'val.getel V2 2 R0', obs=['val.dump V2'], modifies=False)
    for nm, tok in (('char', 'V0'), ('list', 'V5'), ('table', 'V3'), ('NULL', '-'), ('itself', 'V2')):
        st = ['val.new V5 %s' % lit(L_)]
        S('cif_value_set_element_at (%s)' % nm, 'val.setel V2 1 %s' % tok, setup=st, obs=['val.dump V2'])
        S('cif_value_insert_element_at (%s)' % nm, 'val.insel V2 1 %s' % tok, setup=st, obs=['val.dump V2'])
    S('cif_value_insert_element_at (end)', 'val.insel V2 4 V0', obs=['val.dump V2'])
    S('cif_value_remove_element_at (hand over)', 'val.remel V2 2 V5', obs=['val.dump V2'], retry=False)
    S('cif_value_remove_element_at (discard)', 'val.remel V2 3 -', obs=['val.dump V2'], retry=False)
    S('cif_value_get_keys', 'val.keys V3', obs=['val.dump V3'], modifies=False)
    for nm, tok in (('char', 'V0'), ('list', 'V2'), ('table', 'V5'), ('NULL', '-')):
        st = ['val.new V5 %s' % lit(T_)]
        S('cif_value_set_item_by_key (new key, %s)' % nm, 'val.setkey V3 %s %s' % (u('new Key'), tok), setup=st, obs=['val.dump V3'])
        S('cif_value_set_item_by_key (existing key, %s)' % nm, 'val.setkey V3 %s %s' % (u('key'), tok), setup=st, obs=['val.dump V3'])
        S('cif_value_set_item_by_key (equivalent key, %s)' % nm, 'val.setkey V3 %s %s' % (u('e\u0301'), tok), setup=st, obs=['val.dump V3'])
    # a key whose normalised form is exactly one unit longer than the key itself (composition exclusion U+0958 -> U+0915 U+093C):
    # the terminator does not fit the first buffer, a branch of its own in the normalisation helper
    grow = '\u0958'
    S('cif_value_set_item_by_key (key growing by one unit when normalised)', 'val.setkey V3 %s V0' % u(grow), obs=['val.dump V3'])
    S('cif_value_get_item_by_key (key growing by one unit when normalised)', 'val.getkey V3 %s R0' % u(grow), setup=['val.setkey V3 %s V0' % u(grow)], obs=['val.dump V3'], modifies=False)
    S('cif_value_remove_item_by_key (key growing by one unit when normalised)', 'val.remkey V3 %s -' % u(grow), setup=['val.setkey V3 %s V0' % u(grow)], obs=['val.dump V3'], retry=False)
    S('cif_normalize (text growing by one unit)', 'util.norm %s' % u('ab' + grow), obs=[], modifies=False, base=False)
    S('cif_normalize (text growing by several units)', 'util.norm %s' % u(grow * 3 + '\u00c5\ufb03'), obs=[], modifies=False, base=False)
    S('cif_create_block (code growing when normalised)', 'blk.create C0 %s H3' % u('x' + grow))
    S('cif_value_get_item_by_key', 'val.getkey V3 %s R0' % u('K2'), obs=['val.dump V3'], modifies=False)
    S('cif_value_get_item_by_key (absent)', 'val.getkey V3 %s R0' % u('zz'), obs=['val.dump V3'], modifies=False)
    S('cif_value_remove_item_by_key (hand over)', 'val.remkey V3 %s V5' % u('K2'), obs=['val.dump V3'], retry=False)
    S('cif_value_remove_item_by_key (discard)', 'val.remkey V3 %s -' % u('e\u0301'), obs=['val.dump V3'], retry=False)
    # composite values whose serialised form outgrows the initial 512-byte buffer several times (buffer growth and its fall-back)
    bigl = 'val.new V7 %s' % lit(('l', [('s', 'element number %03d' % i, True) for i in range(120)]))
    S('cif_container_set_value (list of 120 strings: serialisation buffer growth)', 'item.set H2 %s V7' % u('_bigl'), setup=[bigl])
    S('cif_container_get_value (list of 120 strings)', 'item.get H2 %s V5' % u('_bigl'), setup=[bigl, 'item.set H2 %s V7' % u('_bigl')], modifies=False, after=['val.count V5'])
    S('cif_loop_add_packet (packet with a list of 120 strings)', 'loop.addpkt L0 P0', setup=[bigl, 'pkt.set P0 %s V7' % u('_c')])
    S('cif_pktitr_update_packet (list of 120 strings)', 'itr.update I0 P1', setup=[bigl, 'itr.open L0 I0', 'itr.next I0', 'pkt.create P1 1 %s' % u('_c'), 'pkt.set P1 %s V7' % u('_c')],
      obs=[], after=['itr.close I0', 'dump C0', 'autocommit C0'], iterator=True)
    S('cif_loop_add_item (default value: list of 120 strings)', 'loop.additem L0 %s V7' % u('_d'), setup=[bigl])
    # hashes large enough that adding an element makes uthash grow its bucket array (the second way an insertion can fail)
    if BIG:
        nt, npk = BIG
        keys = ['k%03d' % i for i in range(nt + 1)]
        bigt = 'val.new V6 { %s }' % ' '.join('%s ?' % u(k) for k in keys[:nt])
        S('cif_value_set_item_by_key (new key, bucket expansion)', 'val.setkey V6 %s V0' % u(keys[nt]), setup=[bigt], obs=['val.count V6'], min_allocs=4)
        bigt1 = 'val.new V6 { %s }' % ' '.join('%s ?' % u(k) for k in keys)
        S('cif_value_clone (table of %d entries)' % (nt + 1), 'val.clone V6 V5', setup=[bigt1], obs=['val.count V6'], modifies=False, after=['val.count V5'])
        S('cif_container_set_value / get_value (table of %d entries)' % (nt + 1), 'item.get H0 %s V5' % u('_big'), setup=[bigt1, 'item.set H0 %s V6' % u('_big')], modifies=False, after=['val.count V5'])
        names = ['_k%03d' % i for i in range(npk + 1)]
        bigp = 'pkt.create P2 %d %s' % (npk, ' '.join(u(n) for n in names[:npk]))
        S('cif_packet_set_item (new item, bucket expansion)', 'pkt.set P2 %s V0' % u(names[npk]), setup=[bigp], obs=[], after=['pkt.get P2 %s' % u(names[npk])], min_allocs=4)
        S('cif_packet_create (%d names)' % (npk + 1), 'pkt.create P2 %d %s' % (npk + 1, ' '.join(u(n) for n in names)), obs=[], modifies=False, base=False, after=['pkt.get P2 %s' % u(names[npk])])
        if TIER != 'quick':
            bigl = ['loop.create H2 %s %d %s L2' % (u('big'), npk + 1, ' '.join(u(n) for n in names)), bigp, 'pkt.set P2 %s V0' % u(names[npk]), 'loop.addpkt L2 P2', 'loop.addpkt L2 P2']
            S('cif_loop_get_packets (%d items)' % (npk + 1), 'itr.open L2 I0', setup=bigl, obs=[], modifies=False, retry=False)
            S('cif_pktitr_next_packet (%d items, into an existing packet)' % (npk + 1), 'itr.next I0 P0', setup=bigl + ['itr.open L2 I0'], modifies=False, obs=[], after=['itr.abort I0', 'autocommit C0'], iterator=True)
            S('cif_loop_add_packet (%d items)' % (npk + 1), 'loop.addpkt L2 P2', setup=bigl, obs=['autocommit C0'], after=['loop.names L2'])
    # utilities
    S('cif_normalize', 'util.norm %s' % u('_A\u00c9e\u0301\u212b name'), obs=[], modifies=False, base=False)
    S('cif_cstr_to_ustr', 'util.cstr %s' % b'plain text'.hex(), obs=[], modifies=False, base=False)
    S('cif_u_strdup', 'util.strdup %s' % u('some text'), obs=[], modifies=False, base=False)
    S('cif_parse_options_create', 'util.opts p', obs=[], modifies=False, base=False)
    S('cif_write_options_create', 'util.opts w', obs=[], modifies=False, base=False)
    # whole-CIF operations
    S('cif_walk', 'walk C0 log=0', modifies=False)
    S('cif_walk (handlers that query their arguments)', 'walk C0', modifies=False)
    S('cif_write (CIF 2.0)', 'write C0 B1', modifies=False)
    S('cif_write (CIF 1.1)', 'write C1 B1 v=1', setup=['bytes.set B0 %s' % DOC1.hex(), 'parse new:C1 B0'], obs=['dump C1', 'autocommit C1'], modifies=False)
    for nm, doc in (('CIF 2.0 document', DOC), ('CIF 1.1 document', DOC1), ('document with errors', BADDOC)):
        st = ['bytes.set B0 %s' % doc.hex()]
        S('cif_parse (%s, syntax only)' % nm, 'parse - B0', setup=st, modifies=False, base=False, obs=[])
        S('cif_parse (%s, syntax only, handlers)' % nm, 'parse - B0 h=2 syn=1', setup=st, modifies=False, base=False, obs=[])
        # handlers that query what they are given through the public API (names and category of the provisional loop, ...)
        S('cif_parse (%s, syntax only, handlers that query their arguments)' % nm, 'parse - B0 h=1', setup=st, modifies=False, base=False, obs=[])
        S('cif_parse (%s, new CIF, handlers that query their arguments and set loop categories)' % nm, 'parse new:C1 B0 h=1 setcat=1', setup=st, modifies=False, base=False, obs=[], after=['dump C1'], same_after_retry=True)
        S('cif_parse (%s, new CIF)' % nm, 'parse new:C1 B0', setup=st, modifies=False, base=False, obs=[], after=['dump C1'], same_after_retry=True)
        # documented: "In the event of a failure ... the provided CIF object may still be modified", so only consistency is required
        S('cif_parse (%s, into an existing CIF)' % nm, 'parse C0 B0', setup=st, obs=[], after=CIF_OBS + ['walk C0 log=0'], retry=False, incremental=True)
    S('cif_parse (UTF-16 document)', 'parse new:C1 B0', setup=['bytes.set B0 %s' % (b'\xff\xfe' + DOC.decode('utf-8').encode('utf-16-le')).hex()], modifies=False, base=False, obs=[], after=['dump C1'])
    S('cif_parse (CIF 2.0 document, rejecting callback)', 'parse new:C1 B0 rej=1:2', setup=['bytes.set B0 %s' % BADDOC.hex()], modifies=False, base=False, obs=[], after=[])
    return SC


SITE = re.compile(r'#\d+ 0x[0-9a-f]+ in (\w+) (?:/repo/src/|/repo/uthash/)?([\w./-]+):(\d+)')


def crash_site(err):
    """first frames of the sanitizer report that lie in the library"""
    kind = 'crash'
    m = re.search(r'ERROR: AddressSanitizer: ([\w-]+)', err)
    if m:
        kind = 'ASan ' + m.group(1)
    elif 'runtime error' in err:
        m = re.search(r'runtime error: ([^\n]{0,60})', err)
        kind = 'UBSan ' + (m.group(1) if m else '')
    elif 'LeakSanitizer' in err:
        kind = 'leak'
    fr = []
    for m in SITE.finditer(err):
        f, file = m.group(1), m.group(2)
        if file.startswith('/verif') or f.startswith('__wrap') or f.startswith('__interceptor') or f in ('main', 'exec_cmd'):
            if fr:
                break
            continue
        if '/' in file and not file.startswith('internal'):
            continue
        fr.append(f)
        if len(fr) >= 2:
            break
    return kind, '<'.join(fr)


def fault_site(script0, script_k):
    """where the failed allocation request was made: the frames of the library (and the SQLite / ICU entry point it went through)"""
    os.environ['CIFX_FAULT_TRACE'] = '1'
    try:
        ex = Exec(exe('san'))
        ex.audit = False
        try:
            ex.run(script0)
            ex.run(script0)
            ex.run(script_k, timeout=120)
        except Crash as c:
            err = c.stderr
        else:
            err = ex.stop()[1]
    finally:
        del os.environ['CIFX_FAULT_TRACE']
    i = err.find('FAULT injected at:')
    if i < 0:
        return '?'
    fr, entry = [], ''
    for line in err[i:].split('\n')[1:]:
        m = re.match(r'\s+#\d+ 0x[0-9a-f]+ (?:in (\S+) )?(\S*)', line)
        if not m:
            break
        f, where = m.group(1) or '', m.group(2)
        if f in ('exec_cmd', 'main', 'cmd_parse', 'cmd_walk', 'cmd_write'):
            break
        if where.startswith('/repo/'):
            fr.append(f)
            if len(fr) >= 2:
                break
        elif not fr and f and ('libsqlite' in line or 'libicu' in line):
            entry = f          # the last SQLite / ICU function before the library's own frame: the entry point called
    return (entry + '<' if entry else '') + '<'.join(fr)


def run_scenario(args, dom, cap, cold=False):
    """cold: the prepared statements that the set-up and the observations left cached in the CIF are dropped just before the
    call, so that the call under test prepares - and may fail to prepare - every statement it uses"""
    sc = args
    ex = Exec(exe('san'))
    ex.audit = False
    res = {'name': sc['name'], 'domain': dom, 'cold': cold, 'faults': 0, 'failed_cleanly': 0, 'absorbed': 0, 'viol': [], 'allocs': 0}

    def viol(kind, k, detail, site=''):
        entry = site.split('<')[0] if site.startswith(('sqlite3_', 'u')) and '<' in site else ''
        res['viol'].append(({'scenario': sc['name'], 'allocator': DOMAINS[dom], 'kind': kind, 'site': site, 'entry': entry, 'class': 'iterator' if sc['iterator'] else 'plain'}, dict(detail, k=k, scenario=sc['name'], allocator=DOMAINS[dom], call=sc['call'], cold=cold)))

    def script(k, warm=not cold):
        l = ['reset'] + sc['setup'] + sc['obs'] + ['env' if warm else 'cold', 'count.reset', 'fault.arm %d %d' % (k or 0, dom), sc['call'] if k is not None else 'env']
        l += ['fault.off', 'env'] + sc['obs']
        if k and sc['retry']:
            l.append(sc['call'])
            l += sc['obs']
        l += sc['after']
        return l
    nset, nobs, naft = len(sc['setup']), len(sc['obs']), len(sc['after'])
    try:
        base_live = ex.run(['reset', 'env'])[-1]['live']
        ex.run(script(0))            # warms the lazily built global state of SQLite and ICU
        a0 = ex.run(script(0))
        live_after = ex.run(['reset', 'env'])[-1]['live']
        # reference states for iterator scenarios: as if the call had never been made / as before the iterator was opened
        askip = ex.run(script(None)) if sc['iterator'] else None
        abase = ex.run(['reset'] + BASE + ['dump C0'])[-1] if sc['iterator'] else None
    except Crash as c:
        viol('fault-free run failed', 0, {'message': str(c), 'stderr': c.stderr[-3000:]})
        ex.kill()
        return res
    bad = [x for x in a0 if isinstance(x, str)]
    if bad:
        viol('harness', 0, {'message': 'scenario script is wrong: %r' % bad[:3]})
        ex.kill()
        return res
    if live_after != base_live:
        viol('leak without any fault', 0, {'message': '%d allocation(s) not released' % (live_after - base_live)})
    p = 1 + nset
    pre0 = a0[p:p + nobs]
    ic = p + nobs + 3
    call0 = a0[ic] if isinstance(a0[ic], dict) else {'rc': 0, 'v': a0[ic]}
    res['allocs'] = a0[ic + 2]['allocs']
    post0 = a0[ic + 3:ic + 3 + nobs]
    aft0 = a0[ic + 3 + nobs:]
    rc0 = call0.get('rc')
    res['rc0'] = rc0
    if sc['min_allocs'] and dom == 0 and res['allocs'] < sc['min_allocs']:
        viol('harness', 0, {'message': 'the scenario was built to include a bucket expansion (%d allocations) but the call made only %d' % (sc['min_allocs'], res['allocs'])})
    k = nsited = 0
    while True:
        k += 1
        if k > cap:
            res['capped'] = True
            break
        sl = script(k)
        try:
            a = ex.run(sl, timeout=120)
            live = ex.run(['reset', 'env'])[-1]['live']
        except Crash as c:
            res['faults'] += 1
            kind, site = crash_site(c.stderr)
            if str(c).startswith('timeout'):
                kind = 'hang'
            viol(kind, k, {'message': '%s with the %d-th %s allocation of the call failing' % (kind, k, DOMAINS[dom]), 'report': c.stderr[-6000:], 'script': sl}, site)
            ex = Exec(exe('san'))
            ex.audit = False
            try:
                base_live = ex.run(['reset', 'env'])[-1]['live']
                ex.run(script(0))
            except Crash:
                break
            if k > res['allocs'] + 40:
                break
            continue
        fired = a[ic + 1]['fired']
        if not fired:
            break
        res['faults'] += 1
        call = a[ic] if isinstance(a[ic], (dict, str)) else {'rc': 0, 'v': a[ic]}
        if isinstance(call, str) or any(isinstance(x, str) for x in a):
            viol('harness', k, {'message': 'executor answered %r' % [x for x in a if isinstance(x, str)][:2], 'script': sl})
            continue
        rc = call.get('rc')
        post = a[ic + 3:ic + 3 + nobs]
        pre = a[p:p + nobs]
        msgs = []
        if rc in (ERROR, MEMORY):
            res['failed_cleanly'] += 1
            # a failed call leaves the managed CIF as it was; caller-owned values and packets need only stay valid
            # (they were dumped through the public API and are released below)
            for cmd, before, after_ in zip(sc['obs'], pre, post):
                if (cmd.startswith('dump C') or cmd.startswith('autocommit')) and before != after_:
                    msgs.append(('CIF changed by a failed call', 'the call returned %d but "%s" differs from its answer before the call' % (rc, cmd), {'before': before, 'after': after_}))
            # "stay valid": whatever the failed call left in a caller-owned value or packet, each of its members must still answer the
            # accessors (a character or number value whose text cannot be had with memory available, a list that cannot be counted,
            # is a corrupted object: later ordinary calls - get_text, clone, write - fail on it)
            for cmd, after_ in zip(sc['obs'], post):
                txt = json.dumps(after_)
                if re.search(r'<(get_text|count|get_element|get_keys|get_item|get_names) rc=', txt):
                    msgs.append(('value corrupted by a failed call', 'the call returned %d and "%s" now contains a member that does not answer its accessor' % (rc, cmd), {'after': after_}))
        elif rc == rc0:
            res['absorbed'] += 1
            # success (or the fault-free outcome) with a failed allocation: the complete fault-free effect is required
            if post != post0 or {x: y for x, y in call.items() if x not in ('log',)} != {x: y for x, y in call0.items() if x not in ('log',)}:
                msgs.append(('fault-free return code with a different effect', 'the call returned %r as without fault, but its result or the state afterwards differs from the fault-free one' % rc,
                             {'fault_free_answer': call0, 'answer': call, 'fault_free_state': post0, 'state': post}))
        else:
            msgs.append(('return code %s' % rc, 'the call returned %r (fault-free: %r); CIF_MEMORY_ERROR (3) or CIF_ERROR (2) expected' % (rc, rc0), {'answer': call}))
        if sc['retry']:
            j = ic + 3 + nobs
            rcall = a[j] if isinstance(a[j], dict) else {'rc': 0, 'v': a[j]}
            rpost = a[j + 1:j + 1 + nobs]
            raft = a[j + 1 + nobs:]
            if rc in (ERROR, MEMORY) or rc != rc0:
                if rcall.get('rc') != rc0:
                    msgs.append(('retry fails', 'the same call repeated with memory available returned %r (fault-free: %r)' % (rcall.get('rc'), rc0), {'retry_answer': rcall}))
                elif sc['same'] and (rpost != post0 or raft != aft0 or {x: y for x, y in rcall.items() if x != 'log'} != {x: y for x, y in call0.items() if x != 'log'}):
                    msgs.append(('retry differs', 'the same call repeated with memory available does not produce the fault-free result', {'fault_free': [call0, post0, aft0], 'retry': [rcall, rpost, raft]}))
        else:
            aft = a[ic + 3 + nobs:]
            if any(isinstance(x, str) for x in aft) or (sc['incremental'] and [x.get('rc') for x in aft] != [x.get('rc') for x in aft0]):
                msgs.append(('CIF unusable after a failed call', 'follow-up operations on the CIF fail: %r' % [x if isinstance(x, str) else x.get('rc') for x in aft], {'observed': aft}))
            if rc == rc0 and aft != aft0:
                msgs.append(('fault-free return code with a different effect', 'follow-up observations differ from the fault-free ones', {'fault_free': aft0, 'observed': aft}))
        if sc['iterator']:
            # the iterator's transaction may have been committed, left pending or rolled back as a whole, but the CIF must
            # be in one of the states it had, or would have had, at a transaction boundary
            fin = a[len(a) - naft:]
            ok_states = [aft0, askip[len(askip) - naft:]]
            for cmd, x, i in zip(sc['after'], fin, range(naft)):
                if cmd.startswith('dump C') and x not in [st[i] for st in ok_states] + [abase]:
                    msgs.append(('CIF inconsistent after a failed iterator operation', 'after releasing the iterator "%s" shows a state that is neither the fault-free result, nor the result without the call, nor the state before the iterator was opened' % cmd,
                                 {'observed': x, 'fault_free': aft0[i]}))
        def ac(ans):
            return [x.get('autocommit') for x in ans if isinstance(x, dict) and 'autocommit' in x]
        opened = (0 in ac(a[ic + 3:]) and 0 not in ac(a0[ic + 3:])) or (rc in (ERROR, MEMORY) and 0 in ac(post) and 0 not in ac(pre))
        if opened:
            msgs = [m for m in msgs if m[0].startswith(('return code', 'leak'))]
            msgs.append(('transaction left open', 'after the call a transaction is still open on the CIF (with no iterator alive), so that later operations fail', {'answers': a[ic:]}))
        if live != base_live:
            msgs.append(('leak', '%d allocation(s) of the library not released after everything was freed' % (live - base_live), {}))
            base_live = live
        if msgs:
            site = fault_site(script(0), sl) if nsited < 400 else '(not traced)'
            nsited += 1
        for kind, msg, d in msgs:
            viol(kind, k, dict(d, message=msg + ' [%s allocation %d of %d, requested in %s]' % (DOMAINS[dom], k, res['allocs'], site), rc=rc, script=sl, failed_allocation=site), site)
    rc, err = ex.stop()
    if rc != 0 and 'LeakSanitizer' in err:
        kind, site = crash_site(err)
        viol('leak (LeakSanitizer at exit)', 0, {'message': 'memory allocated during the scenario is never released', 'report': err[-5000:]}, site)
    return res


def probe_expansion():
    """sizes at which inserting one more key makes uthash expand the bucket array of a table value / a packet (one extra allocation)"""
    ex = Exec(exe('san'))
    ex.audit = False
    out = []
    for pre, fmt, mk in (('val.create V0 3', 'k%03d', 'val.setkey V0 %s ?'), ('pkt.create P0 0', '_k%03d', 'pkt.set P0 %s ?')):
        lines = ['reset', pre]
        for i in range(400):
            lines += ['count.reset', mk % U(fmt % i), 'env']
        a = ex.run(lines)
        counts = [a[2 + 3 * i + 2]['allocs'] for i in range(400)]
        usual = sorted(counts)[200]
        hit = [i for i in range(1, 400) if counts[i] > usual]
        out.append(hit[0] if hit else None)
    ex.stop()
    return tuple(out) if all(out) else None


def work(chunk, cap):
    return [run_scenario(sc, dom, cap, cold) for sc, dom, cold in chunk]


def main():
    tier = sys.argv[1] if len(sys.argv) > 1 else 'quick'
    rep = Report('C17', tier, 'fault_enumeration')
    global BIG, TIER
    TIER = tier
    BIG = probe_expansion()
    scs = scenarios()
    only = os.environ.get('C17_ONLY')
    if only:
        scs = [s for s in scs if re.search(only, s['name'])]
    doms = [int(x) for x in os.environ.get('C17_DOMAINS', '0,1,2').split(',')]
    cap = int(os.environ.get('C17_CAP', 20000 if tier == 'quick' else 100000))
    jobs = [(s, d, False) for d in doms for s in scs]
    # SQLite statements are prepared on first use and cached in the CIF: in the cold variant the cache is emptied before the call
    jobs += [(s, 1, True) for s in scs if 1 in doms]
    tot = {'faults': 0, 'failed_cleanly': 0, 'absorbed': 0}
    per, capped = {}, []
    for res in pmap(work, [[j] for j in jobs], (cap,)):
        if isinstance(res, dict):
            rep.violation({'kind': 'executor'}, res)
            continue
        for r in res:
            for k in tot:
                tot[k] += r[k]
            per.setdefault(DOMAINS[r['domain']] + ('-cold' if r['cold'] else ''), {})[r['name']] = {'allocations': r['allocs'], 'faults': r['faults'], 'error_returns': r['failed_cleanly'], 'absorbed': r['absorbed']}
            if r.get('capped'):
                capped.append((r['name'], DOMAINS[r['domain']] + ('-cold' if r['cold'] else '')))
            for sig, detail in r['viol']:
                rep.violation(sig, detail)
                if os.environ.get('C17_DUMP'):
                    open(os.environ['C17_DUMP'], 'a').write(json.dumps([sig, detail.get('k'), detail.get('message'), (detail.get('report') or '')[:2500]]) + '\n')
    dompart = {d: {'scenarios': len(v), 'faults': sum(x['faults'] for x in v.values())} for d, v in per.items()}
    return rep.finish({'evaluations': tot['faults'], 'distinct_nontrivial': tot['failed_cleanly'],
                       'rule': '%d scenarios (one public API call each, on a prepared CIF / packet / value of every shape) x allocator domains %s: the call is executed with the k-th allocation request '
                               'made during the call failing, for EVERY k from 1 until an execution no longer reaches the armed request (cap %d per scenario); clang ASan+UBSan build, fresh replay of the scenario prefix per fault; the SQLite domain is enumerated a second time with the prepared statements cached in the CIF dropped just before the call (cold), so that every statement preparation inside the call is failed too. '
                               'Required: no sanitizer report / crash / hang; return code CIF_MEMORY_ERROR or CIF_ERROR with the observable state (CIF dump, autocommit state, caller-owned values and packets) as before the call, or the fault-free '
                               'code with the complete fault-free effect; the same call repeated succeeds and yields the fault-free result; ledger balanced after releasing everything; no LeakSanitizer report at exit. '
                               'evaluations = single faults injected; non-trivial = faults answered with an error code' % (len(scs), [DOMAINS[d] for d in doms], cap),
                       'samples': [s['call'][:80] for s in scs[:3]], 'per_domain': dompart, 'absorbed_faults': tot['absorbed'], 'scenarios': per,
                       'capped': capped, 'exhaustive': not capped},
                      ['one failure per execution; first-use initialisation of SQLite and ICU global state is warmed up before faults are injected (a failure there is cached by those libraries)',
                       'allocations made by libc itself (stdio buffers) are outside the three domains'])


if __name__ == '__main__':
    sys.exit(main())
