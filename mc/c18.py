#!/usr/bin/python3
"""C18: string analysis and quoting rules agree with what the parser reads back.  Drives harness/strcheck.c."""
import sys, os, subprocess
sys.path.insert(0, os.path.dirname(os.path.abspath(__file__)))
from lib import *

RULE = ("ALL strings of length <= 4 (thorough 5) over the 18 syntactically significant characters a SP TAB ' \" ; LF CR # _ $ [ ] { } ? . backslash "
        "and of length <= 6 (thorough 8) over ' \" ; LF a, each x allow_unquoted x allow_triple_quoted x length_limit in {2048,12,8,6,3}: "
        "the 8 statistics against a direct independent definition; the recommended delimiter permitted by the arguments and structurally usable; "
        "bare / single-quoted form recommended whenever a one-line string admits it; with the real limit the string presented with the recommended "
        "delimiter (own encoder of the prefix protocol for text fields) after a name, at column 1, after another loop value and ending exactly at "
        "column 2048 is parsed back by the CIF 2.0 parser (one storing parse, the rest syntax-only) to exactly that string and quoting status; "
        "set_quoted(NOT_QUOTED), the scanner on the bare token and cif_is_reserved_string against the grammar predicate; reserved words in all case "
        "mixtures; a^n for n = 2036..2052; ab c^n cd for c in LF ' \" ; SP a and n in 127..131072 around the powers 2^7, 2^8, 2^15, 2^16, 2^17 (statistics and delimiter rules).  non-trivial = analyses that recommend a delimiter")


def main():
    tier = sys.argv[1] if len(sys.argv) > 1 else 'quick'
    rep = Report('C18', tier, 'exploration')
    e = exe('fast', 'strcheck')
    nw = NPROC
    ptier = 'light' if (os.environ.get('NORM_LIGHT') and 'c18' == 'c09') else os.environ.get('INPROC_TIER', tier)
    procs = [subprocess.Popen([e, ptier, str(nw), str(w)], stdout=subprocess.PIPE, stderr=subprocess.PIPE, text=True) for w in range(nw)]
    fam, parses = {}, 0
    for w, p in enumerate(procs):
        out, err = p.communicate()
        if p.returncode != 0:
            rep.violation({'kind': 'crash'}, {'worker': w, 'returncode': p.returncode, 'tail': out[-1500:], 'stderr': (err or '')[-3000:]})
        for line in out.split('\n'):
            if line.startswith('S '):
                _, f, ev, nt = line.split()
                d = fam.setdefault(f, [0, 0])
                d[0] += int(ev)
                d[1] += int(nt)
            elif line.startswith('P '):
                parses += int(line.split()[1])
            elif line.startswith('V '):
                _, f, msg = line.split(' ', 2)
                rep.violation({'family': f, 'case': msg[:90]}, {'family': f, 'message': msg})
    ev = sum(v[0] for v in fam.values())
    nt = sum(v[1] for v in fam.values())
    return rep.finish({'evaluations': ev, 'distinct_nontrivial': nt, 'rule': RULE,
                       'samples': ["a'\\n", '; ', 'data_', 'a\\r\\n_', "'\"", 'a^2047'],
                       'families': {k: {'evaluations': v[0], 'nontrivial': v[1]} for k, v in fam.items()},
                       'parses': parses, 'exhaustive': True},
                      ['the independent statistics / grammar predicates in harness/strcheck.c are the expectation',
                       'trailing blanks at the very end of the string may or may not count as has_trailing_ws',
                       'strings containing CR are not parsed back (a CR cannot round-trip through a value)'])


if __name__ == '__main__':
    sys.exit(main())
