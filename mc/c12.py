#!/usr/bin/python3
"""C12: each class of input defect is reported with its documented code and recovered as documented.
Every row of the recovery table (@page error_recovery) that can be planted in isolation x host documents x positions
(first / middle / last element, inside loops, lists, tables, frames, at end of input): the first error callback must
carry the documented code at a line between the defect and the following token, and with an all-accepting callback the
resulting CIF must be what the documented recovery prescribes, with everything outside the defective construct intact."""
import sys, os, json, copy
sys.path.insert(0, os.path.dirname(os.path.abspath(__file__)))
from lib import *
import c01
from model import norm

S = lambda t, q=0: ('s', t, q)
UNKV = ('u',)

# element kinds: ('item', name, text, ast) ('loop', [names], [[(text, ast)]]) ('frame', code, [elements]) ('raw', text)
# ('block', code, [elements]) at top level


def I(name, text, ast=None):
    return ('item', name, text, ast if ast is not None else S(text))


def render(doc, header='#\\#CIF_2.0'):
    """returns (text, marks) where marks maps id(element) -> (first line, last line)"""
    lines = [header] if header is not None else []
    marks = {}

    def emit(el, indent=''):
        start = len(lines) + 1
        k = el[0]
        if k == 'item':
            lines.append(indent + el[1] + ' ' + el[2])
        elif k == 'raw':
            for l in el[1].split('\n'):
                lines.append(l)
        elif k == 'loop':
            lines.append(indent + 'loop_')
            for n in el[1]:
                lines.append(indent + ' ' + n)
            for row in el[2]:
                lines.append(indent + ' ' + ' '.join(t for t, a in row))
        elif k == 'frame':
            lines.append(indent + 'save_' + el[1])
            for e in el[2]:
                emit(e, indent + ' ')
            lines.append(indent + 'save_')
        elif k == 'block':
            lines.append('data_' + el[1])
            for e in el[2]:
                emit(e)
        marks[id(el)] = (start, len(lines))
    for b in doc:
        emit(b)
    return '\n'.join(lines) + '\n', marks


def content(doc):
    """expected canonical content of a (defect-free or recovered) element tree, in c01's expectation format"""
    def cont(els):
        scal_names, scal_vals, loops, frames = [], [], [], {}
        for el in els:
            if el[0] == 'item':
                scal_names.append(el[1])
                scal_vals.append(el[3])
            elif el[0] == 'loop':
                if el[1]:
                    loops.append([tuple(el[1]), [tuple(a for t, a in row) for row in el[2]]])
            elif el[0] == 'frame':
                frames.setdefault(el[1], []).extend(el[2])
        ls = list(loops)
        if scal_names:
            ls.append([tuple(scal_names), [tuple(scal_vals)]])
        return {'loops': ls, 'frames': {k: cont(v) for k, v in frames.items()}}
    blocks = {}
    for b in doc:
        blocks.setdefault(b[1], []).extend(b[2])
    return {k: cont(v) for k, v in blocks.items()}


# ---------- hosts ----------
def hosts():
    H = {}
    H['scalars'] = [('block', 'b', [I('_a', '1'), I('_b', "'two words'", S('two words', 1)), I('_c', 'three')])]
    H['loop'] = [('block', 'b', [I('_a', '1'), ('loop', ['_l1', '_l2'], [[('x', S('x')), ('y', S('y'))], [('p', S('p')), ('q', S('q'))]]), I('_z', 'end')])]
    H['composite'] = [('block', 'b', [I('_a', '1'), I('_l', '[a b [c]]', ('l', (S('a'), S('b'), ('l', (S('c'),))))),
                                      I('_t', "{'k':v 'j':[w]}", ('t', (('k', S('v')), ('j', ('l', (S('w'),)))))), I('_z', 'end')])]
    H['frames'] = [('block', 'b', [I('_a', '1'), ('frame', 'f', [I('_fa', '10'), I('_fb', '20')]), ('frame', 'g', [I('_ga', '30')]), I('_z', 'end')]),
                   ('block', 'c', [I('_a', '2')])]
    H['listloop'] = [('block', 'b', [('loop', ['_m', '_n'], [[('[1 2]', ('l', (S('1'), S('2')))), ('u', S('u'))], [('[]', ('l', ())), ('v', S('v'))]]), I('_z', 'end')])]
    # legal but unusual tokens: none of them is a defect, so none may trigger the callback where the host is parsed as it is
    H['oddities'] = [('block', 'b', [I('_a', '1'), I('_s', ';x'), I('_h', 'a#b'), I('_q', "it's"), I('_d', 'x$y'), I('_u', 'a_b'), I('_e', 'a;b;'), I('_k', 'DATA'), I('_l', 'loop'),
                                     I('_z', 'end')])]
    return H


# ---------- planters: yield (class, label, text, code, (line_lo, line_hi), expected content or None, parse options) ----------
def positions(n):
    return sorted(set([0, n // 2, n - 1]))


def cases():
    out = []
    H = hosts()

    def add(cls, label, doc, code, window_el=None, expect=None, opts='', header='#\\#CIF_2.0', window=None, next_el=None):
        text, marks = render(doc, header)
        if window is None:
            lo = marks[id(window_el)][0]
            hi = marks[id(next_el)][0] if next_el is not None else text.count('\n') + 1
            window = (lo, hi)
        out.append((cls, label, text, code, window, expect, opts, tree_scalar_names(doc)))

    def top_positions(doc):
        """(block elements list, index) for first / middle / last element of the first block, and inside its first frame"""
        res = []
        els = doc[0][2]
        for i in positions(len(els)):
            res.append((els, i, 'block[%d/%d]' % (i, len(els))))
        for e in els:
            if e[0] == 'frame':
                for i in positions(len(e[2])):
                    res.append((e[2], i, 'frame[%d/%d]' % (i, len(e[2]))))
                break
        return res

    def following(doc, els, i):
        """the element that follows position i in document order (or None at end of input)"""
        if i + 1 < len(els):
            return els[i + 1]
        # climb: find the parent list containing els
        def find(parent_els, stack):
            for j, e in enumerate(parent_els):
                if e[0] in ('frame', 'block') and e[2] is els:
                    return stack + [(parent_els, j)]
                if e[0] in ('frame', 'block'):
                    r = find(e[2], stack + [(parent_els, j)])
                    if r:
                        return r
            return None
        chain = find(doc, [])
        while chain:
            pe, j = chain.pop()
            if j + 1 < len(pe):
                return pe[j + 1]
        return None

    for hn, host in H.items():
        # --- defects planted among the elements of containers ---
        for (els0, i, where) in top_positions(host):
            pass
        doc0 = host
        for pos_idx in range(len(top_positions(host))):
            # MISSING_VALUE: an item loses its value
            doc = copy.deepcopy(doc0)
            els, i, where = top_positions(doc)[pos_idx]
            if els[i][0] == 'item':
                orig = els[i]
                els[i] = ('item', orig[1], '', UNKV)
                nxt = following(doc, els, i)
                # the closing save_ of a frame is the following token when the item is last in a frame
                add('missing value', '%s %s' % (hn, where), doc, 133, els[i], content(doc), next_el=nxt if (nxt is not None and i + 1 < len(els)) else None,
                    window=None)
            # DUP_ITEMNAME (scalar): a later item repeats an earlier name in another spelling
            doc = copy.deepcopy(doc0)
            els, i, where = top_positions(doc)[pos_idx]
            first_item = next((e for e in els if e[0] == 'item'), None)
            if first_item is not None and els.index(first_item) <= i:
                dup = ('raw', first_item[1].upper() + ' dupvalue')
                els.insert(i + 1, dup)
                exp = content([(b[0], b[1], b[2]) for b in doc])
                add('duplicate data name', '%s after %s' % (hn, where), doc, 41, dup, exp, next_el=following(doc, els, i + 1) if i + 2 < len(els) + 0 else None)
            # UNEXPECTED_VALUE: a stray value between elements
            doc = copy.deepcopy(doc0)
            els, i, where = top_positions(doc)[pos_idx]
            if els[i][0] == 'item':
                stray = ('raw', 'stray')
                els.insert(i + 1, stray)
                add('unexpected value', '%s after %s' % (hn, where), doc, 134, stray, content(doc), next_el=els[i + 2] if i + 2 < len(els) else None)
            # UNEXPECTED_DELIM: a stray closing delimiter
            for d in (']', '}'):
                doc = copy.deepcopy(doc0)
                els, i, where = top_positions(doc)[pos_idx]
                if els[i][0] == 'item':
                    stray = ('raw', d)
                    els.insert(i + 1, stray)
                    add('unexpected delimiter', '%s %s after %s' % (hn, d, where), doc, 135, stray, content(doc), next_el=els[i + 2] if i + 2 < len(els) else None)
            # RESERVED_WORD as a value
            for w in ('stop_', 'global_', 'data_', 'STOP_'):
                doc = copy.deepcopy(doc0)
                els, i, where = top_positions(doc)[pos_idx]
                if els[i][0] == 'item' and where.startswith('block'):
                    stray = ('raw', w)
                    els.insert(i + 1, stray)
                    add('reserved word', '%s %s after %s' % (hn, w, where), doc, 132, stray, content(doc), next_el=els[i + 2] if i + 2 < len(els) else None)
            # MISSING_ENDQUOTE: the closing quote of a quoted value is missing
            for q in ("'", '"'):
                doc = copy.deepcopy(doc0)
                els, i, where = top_positions(doc)[pos_idx]
                if els[i][0] == 'item':
                    els[i] = ('item', els[i][1], q + 'no end', S('no end', 1))
                    add('missing endquote', '%s %s %s' % (hn, q, where), doc, 106, els[i], content(doc), next_el=following(doc, els, i) if i + 1 < len(els) else None)
            # OVERLENGTH_LINE in several lexical contexts (2049 characters; 2048 must pass silently)
            for ctx in ('bare', 'quoted', 'comment', 'blanks', 'supplementary', 'text-first', 'text-middle', 'text-last', 'triple-first', 'triple-oneline', 'triple-middle', 'triple-last'):
                for n, code in ((2048, None), (2049, 108)):
                    doc = copy.deepcopy(doc0)
                    els, i, where = top_positions(doc)[pos_idx]
                    if els[i][0] != 'item' or not where.startswith('block'):
                        continue
                    name = els[i][1]
                    off = 0
                    if ctx == 'bare':
                        v = 'v' * (n - len(name) - 1)
                        els[i] = ('item', name, v, S(v))
                    elif ctx == 'quoted':
                        v = 'v' * (n - len(name) - 3)
                        els[i] = ('item', name, "'" + v + "'", S(v, 1))
                    elif ctx == 'supplementary':
                        v = '\U0001F600' + 'v' * (n - len(name) - 4)
                        els[i] = ('item', name, "'" + v + "'", S(v, 1))
                    elif ctx == 'text-first':
                        v = 'v' * (n - 1) + '\nsecond'
                        els[i] = ('item', name, '\n;' + v + '\n;', S(v, 1))
                        off = 1
                    elif ctx == 'text-middle':
                        v = 'first\n' + 'v' * n + '\nlast'
                        els[i] = ('item', name, '\n;' + v + '\n;', S(v, 1))
                        off = 2
                    elif ctx == 'text-last':
                        v = 'first\n' + 'v' * n
                        els[i] = ('item', name, '\n;' + v + '\n;', S(v, 1))
                        off = 2
                    elif ctx == 'triple-first':
                        v = 'v' * (n - len(name) - 4) + '\nb'
                        els[i] = ('item', name, "'''" + v + "'''", S(v, 1))
                    elif ctx == 'triple-oneline':
                        v = 'v' * (n - len(name) - 7)
                        els[i] = ('item', name, '"""' + v + '"""', S(v, 1))
                    elif ctx == 'triple-middle':
                        v = 'a\n' + 'v' * n + '\nb'
                        els[i] = ('item', name, "'''" + v + "'''", S(v, 1))
                        off = 1
                    elif ctx == 'triple-last':
                        v = 'a\n' + 'v' * (n - 3)
                        els[i] = ('item', name, "'''" + v + "'''", S(v, 1))
                        off = 1
                    elif ctx == 'comment':
                        els[i] = ('item', name, els[i][2] + ' #' + 'c' * (n - len(name) - len(els[i][2]) - 3), els[i][3])
                    else:
                        els[i] = ('item', name, els[i][2] + ' ' * (n - len(name) - len(els[i][2]) - 1), els[i][3])
                    text, marks = render(doc)
                    assert max(len(l) for l in text.split('\n')) == n, (ctx, n, max(len(l) for l in text.split('\n')))
                    add('overlength line' if code else 'line of 2048', '%s %s %s' % (hn, ctx, where), doc, code, els[i], content(doc),
                        window=(marks[id(els[i])][0] + off, marks[id(els[i])][0] + off + 1))
        # --- loops ---
        for b in host:
            for el in b[2]:
                if el[0] != 'loop':
                    continue
                # PARTIAL_PACKET: the last value is missing
                doc = copy.deepcopy(host)
                lp = [e for e in doc[0][2] if e[0] == 'loop'][0]
                lp[2][-1] = lp[2][-1][:-1]
                exp_doc = copy.deepcopy(doc)
                elp = [e for e in exp_doc[0][2] if e[0] == 'loop'][0]
                elp[2][-1] = elp[2][-1] + [('?', UNKV)]
                els = doc[0][2]
                add('partial packet', hn, doc, 53, lp, content(exp_doc), next_el=els[els.index(lp) + 1] if els.index(lp) + 1 < len(els) else None,
                    window=(render(doc)[1][id(lp)][1], render(doc)[1][id(lp)][1] + 1))
                # PARTIAL_PACKET behind a packet that holds the not-applicable value, a list or a table in the columns the short
                # packet leaves empty (the missing values are unknown, whatever the previous packet held there), and missing two values
                for fill in (('.', ('a',)), ("'q'", S('q', 1))):
                    doc = copy.deepcopy(host)
                    lp = [e for e in doc[0][2] if e[0] == 'loop'][0]
                    ncol = len(lp[1])
                    if ncol < 2:
                        continue
                    lp[2].append([fill] * ncol)
                    lp[2].append([('last', S('last'))] * (ncol - min(2, ncol - 1)))
                    exp_doc = copy.deepcopy(doc)
                    elp = [e for e in exp_doc[0][2] if e[0] == 'loop'][0]
                    elp[2][-1] = elp[2][-1] + [('?', UNKV)] * min(2, ncol - 1)
                    els = doc[0][2]
                    add('partial packet', '%s after a packet of %s' % (hn, fill[0]), doc, 53, lp, content(exp_doc), next_el=els[els.index(lp) + 1] if els.index(lp) + 1 < len(els) else None,
                        window=(render(doc)[1][id(lp)][1], render(doc)[1][id(lp)][1] + 1))
                # DUP_ITEMNAME in a loop header: the duplicate column is dropped
                doc = copy.deepcopy(host)
                els = doc[0][2]
                lp = [e for e in els if e[0] == 'loop'][0]
                firsts = [e for e in els[:els.index(lp)] if e[0] == 'item']
                if firsts:
                    k = els.index(lp)
                    dupname = firsts[0][1].upper()
                    newlp = ('loop', lp[1] + [dupname], [row + [('dropped', S('dropped'))] for row in lp[2]])
                    els[k] = newlp
                    exp_doc = copy.deepcopy(host)
                    add('duplicate data name in loop', hn, doc, 41, newlp, content(exp_doc), window=(render(doc)[1][id(newlp)][0], render(doc)[1][id(newlp)][0] + len(lp[1]) + 2))
                # the same name twice within the loop header: the second column is dropped
                doc = copy.deepcopy(host)
                els = doc[0][2]
                lp = [e for e in els if e[0] == 'loop'][0]
                k = els.index(lp)
                newlp = ('loop', lp[1] + [lp[1][0].upper()], [row + [('dropped', S('dropped'))] for row in lp[2]])
                els[k] = newlp
                add('duplicate data name within a loop header', hn, doc, 41, newlp, content(copy.deepcopy(host)),
                    window=(render(doc)[1][id(newlp)][0], render(doc)[1][id(newlp)][0] + len(lp[1]) + 2))
                # two names repeated within one header, in both orders (a A b B and a b A B): both duplicate columns are dropped
                if len(lp[1]) >= 2:
                    for order in ('adjacent', 'grouped'):
                        doc = copy.deepcopy(host)
                        els = doc[0][2]
                        lp2 = [e for e in els if e[0] == 'loop'][0]
                        k = els.index(lp2)
                        a_, b_ = lp2[1][0], lp2[1][1]
                        rest = lp2[1][2:]
                        if order == 'adjacent':
                            names = [a_, a_.upper(), b_, b_.upper()] + rest
                            rows = [[row[0], ('dropped', S('dropped')), row[1], ('dropped', S('dropped'))] + row[2:] for row in lp2[2]]
                        else:
                            names = [a_, b_] + rest + [a_.upper(), b_.upper()]
                            rows = [row + [('dropped', S('dropped')), ('dropped', S('dropped'))] for row in lp2[2]]
                        newlp = ('loop', names, rows)
                        els[k] = newlp
                        add('two duplicate data names within a loop header', '%s %s' % (hn, order), doc, 41, newlp, content(copy.deepcopy(host)),
                            window=(render(doc)[1][id(newlp)][0], render(doc)[1][id(newlp)][0] + len(names) + 2))
                # two defects that meet: a duplicate name in the header (its column is dropped) and a short last packet.  The values
                # that are missing are unknown in the columns that remain, wherever the dropped column stands and however short the packet
                ncols = len(lp[1])
                for pos in sorted(set([1, ncols])):
                    for m in range(1, ncols + 1):
                        doc = copy.deepcopy(host)
                        els = doc[0][2]
                        lp3 = [e for e in els if e[0] == 'loop'][0]
                        k = els.index(lp3)
                        names = lp3[1][:pos] + [lp3[1][0].upper()] + lp3[1][pos:]
                        rows = [row[:pos] + [('dropped', S('dropped'))] + row[pos:] for row in lp3[2]]
                        short = [('w%d' % j, S('w%d' % j)) for j in range(m)]
                        newlp = ('loop', names, rows + [short])
                        els[k] = newlp
                        exp_doc = copy.deepcopy(host)
                        elp = [e for e in exp_doc[0][2] if e[0] == 'loop'][0]
                        full = short + [('?', UNKV)] * (ncols + 1 - m)
                        elp[2].append(full[:pos] + full[pos + 1:])
                        add('partial packet in a loop with a duplicate name', '%s dup@%d short=%d' % (hn, pos, m), doc, 41, newlp, content(exp_doc),
                            window=(render(doc)[1][id(newlp)][0], render(doc)[1][id(newlp)][0] + len(names) + 2))
                # a further loop ALL of whose header names are duplicates (one column; two columns): every column is dropped, so
                # nothing of that loop is stored, and what follows it is unaffected
                for ncol in (1, 2):
                    doc = copy.deepcopy(host)
                    els = doc[0][2]
                    lp0 = [e for e in els if e[0] == 'loop'][0]
                    if len(lp0[1]) < ncol:
                        continue
                    k = els.index(lp0)
                    names = [n.upper() for n in lp0[1][:ncol]]
                    newlp = ('loop', names, [[('dropped', S('dropped'))] * ncol, [('dropped2', S('dropped2'))] * ncol])
                    els.insert(k + 1, newlp)
                    add('every data name of a loop header is a duplicate', '%s %d column(s)' % (hn, ncol), doc, 41, newlp, content(copy.deepcopy(host)),
                        window=(render(doc)[1][id(newlp)][0], render(doc)[1][id(newlp)][0] + ncol + 2))
                # MISSING_SPACE between two quoted loop values
                doc = copy.deepcopy(host)
                els = doc[0][2]
                lp = [e for e in els if e[0] == 'loop'][0]
                if len(lp[1]) == 2 and lp[2][0][0][1][0] == 's':
                    k = els.index(lp)
                    raw = ('raw', 'loop_\n ' + '\n '.join(lp[1]) + "\n 'x''y'\n " + ' '.join(t for t, a in lp[2][1]))
                    els[k] = raw
                    exp_doc = copy.deepcopy(host)
                    elp = [e for e in exp_doc[0][2] if e[0] == 'loop'][0]
                    elp[2][0] = [("'x'", S('x', 1)), ("'y'", S('y', 1))]
                    m = render(doc)[1][id(raw)]
                    add('missing whitespace', hn, doc, 105, raw, content(exp_doc), window=(m[0] + 1 + len(lp[1]), m[0] + 1 + len(lp[1])))
        # --- empty loop header / loop without values, at the end of a block and before a frame / block ---
        doc = copy.deepcopy(host)
        stray = ('raw', 'loop_')
        doc[0][2].append(stray)
        add('empty loop header', hn + ' end of block', doc, 37, stray, content(host), next_el=doc[1] if len(doc) > 1 else None)
        doc = copy.deepcopy(host)
        stray = ('raw', 'loop_\n _e1\n _e2')
        doc[0][2].append(stray)
        add('loop without values', hn + ' end of block', doc, 36, stray, 'EMPTYLOOP', next_el=doc[1] if len(doc) > 1 else None)
        # --- save frame defects ---
        doc = copy.deepcopy(host)
        stray = ('raw', 'save_')
        doc[0][2].insert(1, stray)
        add('unexpected frame terminator', hn, doc, 124, stray, content(host), next_el=doc[0][2][2] if len(doc[0][2]) > 2 else None)
        # unterminated frame before a block header and at end of input
        doc = copy.deepcopy(host)
        fr = ('raw', 'save_open\n _in 1')
        doc[0][2].append(fr)
        exp_doc = copy.deepcopy(host)
        exp_doc[0][2].append(('frame', 'open', [I('_in', '1')]))
        if len(doc) > 1:
            add('unterminated frame before block', hn, doc, 123, fr, content(exp_doc), window=(render(doc)[1][id(fr)][1], render(doc)[1][id(doc[1])][0]))
        else:
            add('unterminated frame at end of input', hn, doc, 126, fr, content(exp_doc), window=(render(doc)[1][id(fr)][1], render(doc)[1][id(fr)][1] + 1))
        # nested frame while nesting is not enabled: the outer frame is assumed terminated
        doc = copy.deepcopy(host)
        fr = ('raw', 'save_outer\n _o 1\n save_inner\n _i 2\n save_')
        doc[0][2].append(fr)
        exp_doc = copy.deepcopy(host)
        exp_doc[0][2].append(('frame', 'outer', [I('_o', '1')]))
        exp_doc[0][2].append(('frame', 'inner', [I('_i', '2')]))
        m = render(doc)[1][id(fr)]
        add('nested frame not allowed', hn, doc, 123, fr, content(exp_doc), window=(m[0] + 2, m[0] + 2))
        # save frames disabled altogether
        if any(e[0] == 'frame' for e in host[0][2]):
            doc = copy.deepcopy(host)
            fr = [e for e in doc[0][2] if e[0] == 'frame'][0]
            add('frame not allowed', hn, doc, 122, fr, content(host), opts='depth=0', window=(render(doc)[1][id(fr)][0], render(doc)[1][id(fr)][0]))
        # duplicate frame code / duplicate block code: the container is reopened
        doc = copy.deepcopy(host)
        doc[0][2].append(('frame', 'dupf', [I('_d1', '1')]))
        second = ('frame', 'DUPF', [I('_d2', '2')])
        doc[0][2].append(second)
        exp_doc = copy.deepcopy(host)
        exp_doc[0][2].append(('frame', 'dupf', [I('_d1', '1'), I('_d2', '2')]))
        add('duplicate frame code', hn, doc, 21, second, content(exp_doc), window=(render(doc)[1][id(second)][0], render(doc)[1][id(second)][0] + 1))
        doc = copy.deepcopy(host)
        second = ('block', doc[0][1].upper(), [I('_again', '5')])
        doc.append(second)
        exp_doc = copy.deepcopy(host)
        exp_doc[0][2].append(I('_again', '5'))
        add('duplicate block code', hn, doc, 11, second, content(exp_doc), window=(render(doc)[1][id(second)][0], render(doc)[1][id(second)][0] + 1))
        # data before the first block header
        doc = copy.deepcopy(host)
        pre = ('block', '', [I('_early', '0')])
        text, marks = render(doc)
        lines = text.split('\n')
        text2 = '\n'.join([lines[0], '_early 0'] + lines[1:])
        exp_doc = [pre] + copy.deepcopy(host)
        out.append(('no block header', hn, text2, 113, (2, 2), content(exp_doc), ''))
        # unclosed text field at the end of input
        doc = copy.deepcopy(host)
        last = ('raw', '_last\n;never closed\nmore')
        doc[-1][2].append(last)
        exp_doc = copy.deepcopy(host)
        exp_doc[-1][2].append(I('_last', '', S('never closed\nmore', 1)))
        m = render(doc)[1][id(last)]
        out.append(('unclosed text field', hn, render(doc)[0].rstrip('\n'), 107, (m[0] + 1, m[1] + 1), None, ''))
        # disallowed character inside a value
        doc = copy.deepcopy(host)
        els = doc[0][2]
        bad = ('raw', "_ctl 'a\x01b'")
        els.insert(1, bad)
        add('disallowed character', hn, doc, 104, bad, None, next_el=els[2] if len(els) > 2 else None, window=(render(doc)[1][id(bad)][0],) * 2)
        # every class of disallowed character (C0 and C1 controls, DEL, non-characters), in every lexical context
        for cname, ch in (('U+0008', '\x08'), ('DEL', '\x7f'), ('U+0080', '\u0080'), ('NEL', '\u0085'), ('U+009F', '\u009f'), ('U+FDD0', '\ufdd0'), ('U+FFFE', '\ufffe'), ('U+1FFFF', '\U0001ffff')):
            for ctx, text in (('quoted', "_ctl 'a%sb'"), ('bare', '_ctl a%sb'), ('comment', '_ctl 1 # c%sd'), ('text', '_ctl\n;t%su\n;'), ('triple', "_ctl '''t%su'''"), ('list', '_ctl [a%sb c]')):
                doc = copy.deepcopy(host)
                els = doc[0][2]
                bad = ('raw', text % ch)
                els.insert(1, bad)
                m0 = render(doc)[1][id(bad)]
                add('disallowed character', '%s %s in %s' % (hn, cname, ctx), doc, 104, bad, None, next_el=els[2] if len(els) > 2 else None, window=(m0[0], m0[1]))
    # --- list / table defects (CIF 2.0) ---
    base = [('block', 'b', [I('_a', '1'), I('_z', 'end')])]

    def with_item(text, ast, code, label, cls):
        doc = copy.deepcopy(base)
        it = ('item', '_v', text, ast)
        doc[0][2].insert(1, it)
        lo = render(doc)[1][id(it)][0]
        nlines = text.count('\n')
        out.append((cls, label, render(doc)[0], code, (lo, lo + nlines + 1), content(doc) if ast is not None else None, ''))
    with_item('[a b', ('l', (S('a'), S('b'))), 136, 'list before a data name', 'missing delimiter')
    with_item("{'k':v", ('t', (('k', S('v')),)), 136, 'table before a data name', 'missing delimiter')
    with_item('[a [b c]', ('l', (S('a'), ('l', (S('b'), S('c'))))), 136, 'outer list', 'missing delimiter')
    with_item("{'k':v w}", ('t', (('k', S('v')),)), 137, 'value without key, last', 'missing table key')
    with_item("{w 'k':v}", ('t', (('k', S('v')),)), 137, 'value without key, first', 'missing table key')
    with_item("{'j':1 w 'k':v}", ('t', (('j', S('1')), ('k', S('v')))), 137, 'value without key, middle', 'missing table key')
    with_item("{k:v}", ('t', (('k', S('v')),)), 138, 'unquoted key', 'unquoted table key')
    with_item("{'j':1 k:v}", ('t', (('j', S('1')), ('k', S('v')))), 138, 'unquoted key, last', 'unquoted table key')
    with_item("{\n;k\n;:v}", ('t', (('k', S('v')),)), 139, 'text block key', 'text block as table key')
    with_item("{:v}", None, 140, 'null key', 'null table key')
    with_item("{'k':}", ('t', (('k', UNKV),)), 133, 'table key without value', 'missing value')
    with_item("{'k':v}x", None, 105, 'table followed by a value without space', 'missing whitespace')
    with_item("[a]b", None, 105, 'list followed by a value without space', 'missing whitespace')
    with_item("'a'b", None, 105, 'quoted string followed by text (CIF 1 style)', 'missing whitespace')
    # defects at the very end of the input, without a final line terminator
    for q in ("'", '"'):
        doc = copy.deepcopy(base)
        doc[0][2].append(('item', '_last', q + 'abc', S('abc', 1)))
        t = render(doc)[0].rstrip('\n')
        out.append(('missing endquote', 'last token of the input, no final newline (%s)' % q, t, 106, (t.count('\n') + 1,) * 2, content(doc), ''))
        doc = copy.deepcopy(base)
        doc[0][2].append(('loop', ['_p', '_q'], [[('1', S('1')), (q + 'abc', S('abc', 1))]]))
        t = render(doc)[0].rstrip('\n')
        out.append(('missing endquote', 'last loop value of the input, no final newline (%s)' % q, t, 106, (t.count('\n') + 1,) * 2, content(doc), ''))
    doc = copy.deepcopy(base)
    doc[0][2].append(('item', '_last', '', UNKV))
    t = render(doc)[0].rstrip('\n').rstrip(' ')
    out.append(('missing value', 'data name is the last token of the input', t, 133, (t.count('\n') + 1,) * 2, content(doc), ''))
    doc = copy.deepcopy(base)
    doc[0][2].append(('item', '_last', '[a b', ('l', (S('a'), S('b')))))
    t = render(doc)[0].rstrip('\n')
    out.append(('missing delimiter', 'unterminated list at the end of the input', t, 136, (t.count('\n') + 1,) * 2, content(doc), ''))
    # disallowed first character
    out.append(('disallowed initial character', 'control character first', '\x01#\\#CIF_2.0\ndata_b\n_a 1\n', 109, (1, 1), None, ''))
    return out


def tree_scalar_names(doc):
    """normalised data names that the element tree presents outside loop_ constructs (items, and raw text planted between elements)"""
    names, unknown = set(), []

    def walk(els):
        for el in els:
            if el[0] == 'item':
                names.add(norm(el[1]))
            elif el[0] == 'raw':
                if 'loop_' in el[1].lower().split():
                    unknown.append(1)       # raw text that contains a loop: which names are scalars cannot be told here
                for t in el[1].split():
                    if t.startswith('_'):
                        names.add(norm(t))
            elif el[0] == 'frame':
                walk(el[2])
    for b in doc:
        walk(b[2])
    return None if unknown else names


def without_loops(expect, scal):
    def cont(c):
        return {'loops': [l for l in c['loops'] if all(norm(n) in scal for n in l[0])], 'frames': {k: cont(v) for k, v in c['frames'].items()}}
    return {k: cont(v) for k, v in expect.items()}


def work(chunk):
    ex = worker_exec('fast')
    ex.run(['reset', 'cif.new C0'])
    out = []
    for case in chunk:
        cls, label, text, code, window, expect, opts = case[:7]
        scal = case[7] if len(case) > 7 else None      # cases built from raw text: no handler variant
        try:
            a = ex.run(['bytes.set B0 %s' % text.encode('utf-8', 'surrogatepass').hex(), 'parse.reuse C0 B0 %s' % opts])[1]
        except Crash as c:
            out.append((cls, label, text, 'crash/hang: %s %s' % (c, c.stderr[-600:])))
            ex = worker_exec('fast')
            ex.run(['reset', 'cif.new C0'])
            continue
        if not isinstance(a, dict):
            out.append((cls, label, text, 'bad answer %r' % (a,)))
            continue
        if code is None:
            if a['nerr'] or a['rc'] != 0:
                out.append((cls, label, text, 'a document without defect triggered the error callback: %r' % (a['errs'][:3],)))
                continue
        else:
            if not a['errs']:
                out.append((cls, label, text, 'no error reported; expected code %d' % code))
                continue
            first = a['errs'][0]
            if first[0] != code:
                out.append((cls, label, text, 'first error code %d at line %d; the documented code for this defect is %d' % (first[0], first[1], code)))
                continue
            if not (window[0] <= first[1] <= window[1]):
                out.append((cls, label, text, 'error %d reported at line %d; the defect is at line %d and the following token at line %d' % (code, first[1], window[0], window[1])))
                continue
            if a['rc'] != 0:
                out.append((cls, label, text, 'cif_parse returned %d although the callback accepted every error' % a['rc']))
                continue
        if expect is not None:
            got = c01.canon_dump(a['dump'])
            if expect == 'EMPTYLOOP':
                continue
            want = c01.canon_exp_values(expect)
            if got != want:
                out.append((cls, label, text, 'content after the documented recovery differs\n  parsed  : %s\n  expected: %s' % (json.dumps(got, default=str)[:900], json.dumps(want, default=str)[:900])))
            # the same input with a handler that passes over every loop_ construct: what is stored outside the loops - before and,
            # in particular, after them - must not depend on the defect's having been met while skipping
            if scal is None:
                continue
            try:
                b = ex.run(['parse.reuse C0 B0 %s skiploops=1' % opts])[0]
            except Crash as c:
                out.append((cls, label, text, 'with every loop skipped by a handler: crash/hang: %s %s' % (c, c.stderr[-600:])))
                ex = worker_exec('fast')
                ex.run(['reset', 'cif.new C0'])
                continue
            if scal is not None and isinstance(b, dict):
                want2 = c01.canon_exp_values(without_loops(expect, scal))
                got2 = c01.canon_dump(b['dump'])
                if b['rc'] != 0 or got2 != want2:
                    out.append((cls, label, text, 'with every loop skipped by a handler (rc %d) the content outside the loops differs\n  parsed  : %s\n  expected: %s' % (b['rc'], json.dumps(got2, default=str)[:900], json.dumps(want2, default=str)[:900])))
    return (len(chunk), out)


def main():
    tier = sys.argv[1] if len(sys.argv) > 1 else 'quick'
    rep = Report('C12', tier, 'exploration')
    cs = cases()
    # every host parses silently
    for hn, host in hosts().items():
        cs.append(('defect-free host', hn, render(host)[0], None, (0, 0), content(host), '', tree_scalar_names(host)))
    total = 0
    classes = {}
    for c in cs:
        classes[c[0]] = classes.get(c[0], 0) + 1
    for res in pmap(work, chunked(cs, max(1, len(cs) // (NPROC * 2))), ()):
        if isinstance(res, dict):
            rep.violation({'kind': 'executor'}, res)
            continue
        n, out = res
        total += n
        for cls, label, text, msg in out:
            rep.violation({'class': cls, 'case': label, 'kind': msg.split(';')[0].split('\n')[0][:70]},
                          {'class': cls, 'case': label, 'document': text[:3000] if len(text) < 3000 else text[:1200] + ' ...', 'message': msg})
    return rep.finish({'evaluations': total, 'distinct_nontrivial': len(cs) - len(hosts()),
                       'rule': 'defect classes of the recovery table planted at the first / middle / last element of the first block and of its first save frame, inside loops, lists and tables, and at end of input, in %d host documents; '
                               'per case: first callback code, line window [defect line, line of the following token], return code, and the dump after the documented recovery; line-length boundary 2048 / 2049 characters in 12 lexical contexts (bare, quoted, comment, blanks, supplementary characters, first / middle / last line of a text field, first / middle / last line of a triple-quoted string, one-line triple-quoted string)' % len(hosts()),
                       'samples': [cs[0][2][:200], cs[len(cs) // 2][2][:200]], 'classes': classes, 'exhaustive': True},
                      ['classes that cannot be planted without triggering another documented error first (invalid block / frame code, wrong encoding, missing prefix, invalid bare value) are not planted here',
                       'where the table does not determine the content (disallowed character replacement, null key, how much an unclosed text field swallows) only code and line are checked'])


if __name__ == '__main__':
    sys.exit(main())
