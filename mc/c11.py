#!/usr/bin/python3
"""C11: CIF version and character encoding are selected exactly as documented.
Full cross product of {magic} x {BOM} x prefer_cif2 x stream encoding x force_default_encoding x default_encoding_name
x dialect-sensitive probes; a decision table transcribed from cif.h gives the expected dialect and decoder per cell, and
the cell must read exactly like the same text parsed with that dialect forced (differential reference)."""
import sys, os, json, itertools
sys.path.insert(0, os.path.dirname(os.path.abspath(__file__)))
from lib import *

WRONG_ENCODING, DISALLOWED_CHAR, DISALLOWED_INITIAL = 110, 104, 109
MAGICS = {'none': '', '1.0': '#\\#CIF_1.0\n', '1.1': '#\\#CIF_1.1\n', '2.0': '#\\#CIF_2.0\n', '2.0-late': '\n#\\#CIF_2.0\n', '2.0-glued': '#\\#CIF_2.0x\n',
          # the version comment ended by the other line terminators and by blanks
          '2.0-crlf': '#\\#CIF_2.0\r\n', '2.0-cr': '#\\#CIF_2.0\r', '2.0-blank': '#\\#CIF_2.0 \t\n', '1.1-crlf': '#\\#CIF_1.1\r\n'}
P2 = [-5, -1, 0, 1, 19, 20, 25]
ENCS = ['utf-8', 'utf-16-le', 'utf-16-be', 'utf-32-le', 'utf-32-be', 'iso-8859-1']
ICU_NAME = {'utf-8': 'UTF-8', 'utf-16-le': 'UTF-16LE', 'utf-16-be': 'UTF-16BE', 'utf-32-le': 'UTF-32LE', 'utf-32-be': 'UTF-32BE', 'iso-8859-1': 'ISO-8859-1', 'us-ascii': 'US-ASCII'}
DEFENC = [None, 'iso-8859-1', 'utf-16-le', 'us-ascii']
BOMS = {'utf-8': b'\xef\xbb\xbf', 'utf-16-le': b'\xff\xfe', 'utf-16-be': b'\xfe\xff', 'utf-32-le': b'\xff\xfe\x00\x00', 'utf-32-be': b'\x00\x00\xfe\xff'}
PROBES = {'list': "data_d\n_v [a b]\n_w 1\n", 'quote': "data_d\n_v 'it's'\n_w x\n", 'table': "data_d\n_v {'k':v}\n_w 2\n",
          'folded': "data_d\n_v\n;\\\nab\\\ncd\n;\n_w 3\n", 'midbom': "data_d\n_v a\ufeffb\n_w 4\n", 'latin': "data_d\n_v '\u00e9'\n_w 5\n"}


def expected_dialect(magic, p2):
    """2, 1, or None (not determined by the documentation)"""
    if p2 < 0:
        return 1
    if p2 >= 20:
        return 2
    if magic == '2.0':
        return 2
    if magic in ('1.0', '1.1'):
        return 1
    if magic == '2.0-glued':
        return None           # a version comment not followed by whitespace: cif.h is silent
    # no version comment at the very start (none, or not at the start)
    return 2 if p2 > 0 else 1


SYSDEF = 'us-ascii'


def expected_decoder(dialect, bom, enc, force, defenc):
    """python codec name the documentation prescribes, or None if open"""
    if force:
        return defenc or SYSDEF              # the executor pins ICU's default converter (where ICU allows it)
    if bom:
        return enc                           # taken from the Unicode signature
    if dialect == 2:
        return 'utf-8'
    if enc in ('utf-16-le', 'utf-16-be', 'utf-32-le', 'utf-32-be'):
        return None                          # Unicode encodings without signature: "in most cases recognized" - open
    return defenc or SYSDEF


def ref_parse(ex, text, dialect, cache):
    k = (text, dialect)
    if k not in cache:
        a = ex.run(['bytes.set B0 %s' % text.encode('utf-8', 'surrogatepass').hex(), 'parse.reuse C0 B0 p2=%d' % (20 if dialect == 2 else -1)])[1]
        cache[k] = a
    return cache[k]


def essential(a, drop=()):
    errs = [e[0] for e in a['errs'] if e[0] not in drop]
    return (a['rc'], tuple(errs), json.dumps(a['dump'], sort_keys=True))


_ph = b"#\\#CIF_2.0\ndata_p\n_x 'unterminated\n_y "
POISONS = [(_ph + b'v' * (4095 - len(_ph)) + '\u00e9'.encode() + b'\n_z 1\n', ''), ('\U0001F600data_x\n_a 1\n'.encode(), 'p2=20')]


def work(chunk):
    ex = worker_exec('fast')
    global SYSDEF
    r = ex.run(['reset', 'cif.new C0', 'defconv US-ASCII'])
    # ICU builds with U_CHARSET_IS_UTF8 ignore the request: the system default is then UTF-8
    SYSDEF = {'US-ASCII': 'us-ascii', 'UTF-8': 'utf-8'}.get(r[2].get('name'), None)
    defname = r[2].get('name')
    out, n, constrained = [], 0, 0
    cache = {}
    for (mk, bom, p2, enc, force, defenc, pk) in chunk:
        text = MAGICS[mk] + PROBES[pk]
        try:
            raw = text.encode(enc)
        except UnicodeEncodeError:
            continue
        if bom and enc == 'iso-8859-1':
            continue
        stream = (BOMS[enc] if bom else b'') + raw
        opts = 'p2=%d force=%d' % (p2, force) + (' enc=%s' % ICU_NAME[defenc] if defenc else '')
        try:
            cmds = []
            if n % 2 == 0:
                # an abandoned parse comes first (alternately: stopped with half a two-byte character read, and stopped at a
                # supplementary character that opens the input); nothing of it may reach the parse of the cell
                cmds = ['bytes.set B5 %s' % POISONS[(n // 2) % 2][0].hex(), 'parse - B5 eh=die %s' % POISONS[(n // 2) % 2][1]]
            ans = ex.run(cmds + ['bytes.set B0 %s' % stream.hex(), 'parse.reuse C0 B0 %s' % opts] +
                         (['parse.reuse C0 B0 %s enc=%s' % (opts, defname)] if (force and not defenc and defname) else []))
            a = ans[len(cmds) + 1]
            if force and not defenc and defname:
                # no encoding name means the default converter: naming that converter explicitly must change nothing
                a2 = ans[len(cmds) + 2]
                if isinstance(a, dict) and isinstance(a2, dict) and essential(a) != essential(a2):
                    out.append(((mk, bom, p2, enc, force, defenc, pk), 'forced default encoding without a name reads differently from the same input with the default converter named explicitly (%s)' % defname + chr(10) + '  got : %s' % str(essential(a))[:500] + chr(10) + '  want: %s' % str(essential(a2))[:500]))
        except Crash as c:
            out.append(((mk, bom, p2, enc, force, defenc, pk), 'crash/hang: %s %s' % (c, c.stderr[-500:])))
            ex = worker_exec('fast')
            ex.run(['reset', 'cif.new C0', 'defconv US-ASCII'])
            continue
        n += 1
        if not isinstance(a, dict):
            out.append(((mk, bom, p2, enc, force, defenc, pk), 'bad answer %r' % (a,)))
            continue
        def magic_of(txt):
            if txt.startswith('#\\#CIF_2.0'):
                rest = txt[10:11]
                return '2.0' if rest in ('', ' ', '\t', '\n', '\r') else '2.0-glued'
            if txt.startswith('#\\#CIF_'):
                return '1.1'
            return 'none'
        if force or bom:
            # the decoder is fixed first; the version comment is looked for in the decoded text
            E = expected_decoder(None, bom, enc, force, defenc)
            if E is None:
                continue
            body = raw if (bom and E == enc) else stream
            if bom and E != enc:
                continue                # a signature decoded by another decoder: garbage in, nothing prescribed
            try:
                seen = body.decode(E)
            except UnicodeDecodeError:
                continue                # the prescribed decoder cannot decode the bytes: only totality is required
            D = expected_dialect(magic_of(seen), p2)
        else:
            # no signature: the version comment is recognised in the bytes (UTF-8 / ASCII)
            bmagic = magic_of(stream.decode('latin-1'))
            D = expected_dialect(bmagic, p2)
            if D is None:
                continue
            E = expected_decoder(D, bom, enc, force, defenc)
            if E is None:
                continue
            try:
                seen = stream.decode(E)
            except UnicodeDecodeError:
                continue
        if D is None or '\x00' in seen:
            continue
        constrained += 1
        ref = ref_parse(ex, seen, D, cache)
        drop = (WRONG_ENCODING,)
        got, want = essential(a, drop), essential(ref, drop)
        if bom and D == 1 and got[1][:1] == (DISALLOWED_CHAR,) and a['errs'][0][1] == 1:
            # under CIF 1.1 rules the signature character itself may be reported (the statement constrains CIF 2.0 only)
            got = (got[0], got[1][1:], got[2])
        if got != want:
            out.append(((mk, bom, p2, enc, force, defenc, pk), 'expected CIF %s rules with the %s decoder: reading differs from the same text parsed with that dialect forced\n  got : %s\n  want: %s' % (
                '2.0' if D == 2 else '1.1', E, str(got)[:600], str(want)[:600])))
            continue
        if D == 2:
            # absolute expectations (the differential reference shares the parser): a byte-order mark is accepted only as the
            # very first character
            nbom = sum(1 for e in a['errs'] if e[0] == DISALLOWED_CHAR)
            if pk == 'midbom' and '\ufeff' in seen and nbom < 1:
                out.append(((mk, bom, p2, enc, force, defenc, pk), 'a byte-order mark inside the CIF 2.0 text was accepted without CIF_DISALLOWED_CHAR'))
                continue
            if pk not in ('midbom',) and nbom and all(ord(c) < 0x7f or c == '\u00e9' for c in seen):
                out.append(((mk, bom, p2, enc, force, defenc, pk), 'CIF_DISALLOWED_CHAR reported for well-formed CIF 2.0 text (leading signature %s)' % bom))
                continue
        has_we = any(e[0] == WRONG_ENCODING for e in a['errs'])
        want_we = (D == 2 and E != 'utf-8')
        if has_we != want_we:
            out.append(((mk, bom, p2, enc, force, defenc, pk), 'CIF_WRONG_ENCODING %s although the input is %s' % (
                'reported' if has_we else 'not reported', 'CIF 2.0 content decoded as %s' % E if want_we else 'not CIF 2.0 in a non-UTF-8 encoding')))
    return (n, constrained, out)


def main():
    tier = sys.argv[1] if len(sys.argv) > 1 else 'quick'
    rep = Report('C11', tier, 'exploration')
    cells = list(itertools.product(MAGICS, (False, True), P2, ENCS, (0, 1), DEFENC, PROBES))
    total, constrained = 0, 0
    for res in pmap(work, chunked(cells, max(1, len(cells) // (NPROC * 4))), ()):
        if isinstance(res, dict):
            rep.violation({'kind': 'executor'}, res)
            continue
        n, c, out = res
        total += n
        constrained += c
        for cell, msg in out:
            mk, bom, p2, enc, force, defenc, pk = cell
            rep.violation({'magic': mk, 'bom': bom, 'prefer_cif2': p2, 'force': force, 'kind': msg.split('\n')[0][:60], 'probe': pk if 'reading' in msg else '*'},
                          {'magic': mk, 'bom': bom, 'prefer_cif2': p2, 'stream_encoding': enc, 'force_default_encoding': force, 'default_encoding_name': defenc, 'probe': pk, 'message': msg})
    # the same text in every encoding recognised by its signature yields the same content: implied by the per-cell reference
    return rep.finish({'evaluations': total, 'distinct_nontrivial': constrained,
                       'rule': 'full cross product of version comment %r x BOM x prefer_cif2 %r x stream encoding %r x force_default_encoding x default_encoding_name %r x probes %r (cells whose text is not encodable are dropped); '
                               'non-trivial = cells for which cif.h determines both dialect and decoder and the decoder can decode the bytes; the others are checked for totality only' % (list(MAGICS), P2, ENCS, DEFENC, list(PROBES)),
                       'samples': [{'magic': '2.0', 'bom': True, 'prefer_cif2': 0, 'encoding': 'utf-16-le', 'expect': 'CIF 2.0 rules + CIF_WRONG_ENCODING'},
                                   {'magic': 'none', 'bom': True, 'prefer_cif2': 1, 'encoding': 'utf-8', 'expect': 'CIF 2.0 rules'}], 'exhaustive': True},
                      ['ICU default converter pinned to US-ASCII by the executor', 'reference reading = the decoded text parsed as UTF-8 with the dialect forced through prefer_cif2 = 20 / -1',
                       'cells left open by the documentation: UTF-16/32 without signature and without force; version comment not followed by whitespace; bytes the prescribed decoder cannot decode'])


if __name__ == '__main__':
    sys.exit(main())
