#!/usr/bin/python3
"""C19: value objects are independent deep values; lists, tables and packets keep their contracts.
BFS over operation sequences on a pool of value slots, borrowed member references and a packet, in the ASan/UBSan
build; a Python value model (ownership-aware) predicts return codes and the deep content of every live object."""
import sys, os, copy, json, unicodedata, time
sys.path.insert(0, os.path.dirname(os.path.abspath(__file__)))
from lib import *
from model import norm, canon_value, valid_name, _bad_chars

OK, ARG, INVALID_INDEX, NOSUCH_ITEM, INVALID_NUMBER, INVALID_ITEMNAME = 0, 6, 73, 43, 72, 42
CHAR, NUMB, LIST, TABLE, NA, UNK = 0, 1, 2, 3, 4, 5
E1, E2 = "\u00e9", "e\u0301"
NUMB_DUMP = {'k': 'numb', 'q': 0, 't': '1.5(2)', 'num': '0:1.5', 'su': '0:0.20000000000000001', 'sign': 1, 'dig': '15', 'sud': '2', 'scale': 1}


def nfc(s):
    return unicodedata.normalize('NFC', s)


def key_valid(k):
    for ch in k:
        o = ord(ch)
        if (o < 0x20 and o not in (9, 10, 13)) or o == 0x7f or 0xfdd0 <= o <= 0xfdef or (o & 0xfffe) == 0xfffe or 0xd800 <= o <= 0xdfff:
            return False
    return True


def default_of(kind, defaults):
    if kind == CHAR:
        return copy.deepcopy(defaults['char'])
    if kind == NUMB:
        return copy.deepcopy(defaults['numb'])
    if kind == LIST:
        return {'k': 'list', 'e': []}
    if kind == TABLE:
        return {'k': 'table', 'i': []}
    if kind == NA:
        return {'k': 'na'}
    return {'k': 'unk'}


def become(obj, new):
    """in-place replacement keeping the python identity (borrowed references stay attached to the same member object)"""
    obj.clear()
    obj.update(new)


class VM:
    """V: slot -> value dict (owned); R: ref slot -> (root id, value dict inside a container); P: packet [[name, value],...]"""

    def __init__(self, defaults):
        self.V = {}
        self.R = {}
        self.P = None
        self.d = defaults

    def contains(self, root, target):
        if root is target:
            return True
        if root['k'] == 'list':
            return any(self.contains(e, target) for e in root['e'])
        if root['k'] == 'table':
            return any(self.contains(e, target) for _, e in root['i'])
        return False

    def owner_of(self, obj):
        for s, v in self.V.items():
            if self.contains(v, obj):
                return v
        if self.P is not None:
            for ent in self.P:
                v = ent[1]
                if self.contains(v, obj):
                    return v
        return None

    def prune_refs(self):
        """drop references whose target is no longer inside a live container"""
        for r in list(self.R):
            if self.owner_of(self.R[r]) is None:
                del self.R[r]

    def get(self, tok):
        if tok is None:
            return None
        if tok[0] == 'V':
            return self.V.get(tok)
        return self.R.get(tok)

    def direct_members(self, obj):
        if obj['k'] == 'list':
            return list(obj['e'])
        if obj['k'] == 'table':
            return [e for _, e in obj['i']]
        return []

    def invalidate_under(self, obj, keep=()):
        """references to (transitive) members of obj become invalid, except objects listed in keep"""
        for r in list(self.R):
            t = self.R[r]
            if t is not obj and self.contains(obj, t) and not any(t is k for k in keep):
                del self.R[r]


def canon_m(v):
    return canon_value(v)


def veq(model, got):
    if not isinstance(got, dict):
        return False
    try:
        return canon_m(model) == canon_m(got)
    except Exception:
        return False     # the dump contains an error marker (a query on a member failed)


# ---------- operations: (name, args) -> (lines, apply(model, answers) -> problems) ----------
class VOp:
    def __init__(self, name, *args):
        self.name, self.args = name, args

    def __repr__(self):
        return '%s%r' % (self.name, self.args)

    def lines(self):
        n, a = self.name, self.args
        if n == 'create':
            return ['val.create %s %d' % a]
        if n == 'init':
            return ['val.init %s %d' % a]
        if n == 'copychar':
            return ['val.copychar %s %s' % (a[0], U(a[1]))]
        if n == 'initchar':
            return ['val.initchar %s %s' % (a[0], U(a[1]))]
        if n == 'parsenumb':
            return ['val.parsenumb %s %s' % (a[0], U(a[1]))]
        if n == 'clone':
            return ['val.clone %s %s%s' % (a[0], a[1], ' into' if a[2] else '')]
        if n == 'clean':
            return ['val.clean %s' % a[0]]
        if n == 'free':
            return ['val.free %s' % a[0]]
        if n == 'insel':
            return ['val.insel %s %d %s' % (a[0], a[1], a[2] or '-')]
        if n == 'insmany':
            return ['val.insel %s %d %s' % (a[0], a[1], a[2] or '-')] * a[3]
        if n == 'setel':
            return ['val.setel %s %d %s' % (a[0], a[1], a[2] or '-')]
        if n == 'getel':
            return ['val.getel %s %d %s' % a]
        if n == 'remel':
            return ['val.remel %s %d %s' % (a[0], a[1], a[2] or '-')]
        if n == 'count':
            return ['val.count %s' % a[0]]
        if n == 'setkey':
            return ['val.setkey %s %s %s' % (a[0], U(a[1]), a[2] or '-')]
        if n == 'getkey':
            return ['val.getkey %s %s %s' % (a[0], U(a[1]), a[2])]
        if n == 'remkey':
            return ['val.remkey %s %s %s' % (a[0], U(a[1]), a[2] or '-')]
        if n == 'keys':
            return ['val.keys %s' % a[0]]
        if n == 'pset':
            return ['pkt.set P0 %s %s' % (U(a[0]), a[1] or '-')]
        if n == 'pget':
            return ['pkt.get P0 %s %s' % (U(a[0]), a[1])]
        if n == 'prem':
            return ['pkt.remove P0 %s %s' % (U(a[0]), a[1] or '-')]
        if n == 'pnew':
            return ['pkt.create P0 %d %s' % (len(a[0]), ' '.join(U(x) for x in a[0]))]
        if n == 'pfree':
            return ['pkt.free P0']
        raise ValueError(n)

    def apply(self, m, ans):
        n, a = self.name, self.args
        A = ans[-1]
        rc = A.get('rc') if isinstance(A, dict) else None
        P = []

        def want(code, why=''):
            if rc != code:
                P.append('%r returned %r, expected %d %s' % (self, rc, code, why))
                return False
            return True
        if n == 'create':
            if want(OK):
                if a[0] in m.V:
                    m.invalidate_under(m.V[a[0]])
                m.V[a[0]] = default_of(a[1], m.d)
                m.prune_refs()
        elif n == 'init':
            o = m.get(a[0])
            if want(OK):
                m.invalidate_under(o)
                become(o, default_of(a[1], m.d))
        elif n in ('copychar', 'initchar'):
            o = m.get(a[0])
            if want(OK):
                m.invalidate_under(o)
                become(o, {'k': 'char', 'q': 1, 't': a[1]})
        elif n == 'parsenumb':
            o = m.get(a[0])
            if a[1] == '1.5(2)':
                if want(OK):
                    m.invalidate_under(o)
                    become(o, copy.deepcopy(NUMB_DUMP))
            else:
                want(INVALID_NUMBER, '(the value must stay unchanged)')
        elif n == 'clone':
            src = m.get(a[0])
            if want(OK):
                new = copy.deepcopy(src)
                if a[2] and a[1] in m.V:
                    dst = m.V[a[1]]
                    if dst is src:
                        P.append('driver error: clone onto itself')
                    m.invalidate_under(dst)
                    become(dst, new)
                else:
                    if a[1] in m.V:
                        m.invalidate_under(m.V[a[1]])
                        old = m.V[a[1]]
                        for r in list(m.R):
                            if m.R[r] is old:
                                del m.R[r]
                    m.V[a[1]] = new
                m.prune_refs()
        elif n == 'clean':
            o = m.get(a[0])
            m.invalidate_under(o)
            become(o, {'k': 'unk'})
        elif n == 'free':
            del m.V[a[0]]
            m.prune_refs()
        elif n in ('insel', 'insmany'):
            o = m.get(a[0])
            cnt = a[3] if n == 'insmany' else 1
            for j in range(cnt):
                Aj = ans[j]
                rcj = Aj.get('rc')
                if o['k'] != 'list':
                    exp = ARG
                elif a[1] > len(o['e']):
                    exp = INVALID_INDEX
                else:
                    exp = OK
                if rcj != exp:
                    P.append('%r (repetition %d) returned %r, expected %d' % (self, j, rcj, exp))
                    break
                if exp == OK:
                    e = m.get(a[2])
                    o['e'].insert(a[1], copy.deepcopy(e) if e is not None else {'k': 'unk'})
        elif n == 'setel':
            o = m.get(a[0])
            if o['k'] != 'list':
                want(ARG)
            elif a[1] >= len(o['e']):
                want(INVALID_INDEX)
            elif want(OK):
                e = m.get(a[2])
                cur = o['e'][a[1]]
                if e is cur:
                    pass    # documented alias case: no change
                else:
                    new = copy.deepcopy(e) if e is not None else {'k': 'unk'}
                    # cif.h: the replaced value is cleaned and the new one copied ONTO it, "visible to code that holds a
                    # reference to the value": a reference to the member stays attached, references below it die
                    m.invalidate_under(cur)
                    become(cur, new)
        elif n == 'getel':
            o = m.get(a[0])
            if o['k'] != 'list':
                want(ARG)
            elif a[1] >= len(o['e']):
                want(INVALID_INDEX)
            elif want(OK):
                if not veq(o['e'][a[1]], A['v']):
                    P.append('%r delivered %r, model %r' % (self, A['v'], o['e'][a[1]]))
                m.R[a[2]] = o['e'][a[1]]
        elif n == 'remel':
            o = m.get(a[0])
            if o['k'] != 'list':
                want(ARG)
            elif a[1] >= len(o['e']):
                want(INVALID_INDEX)
            elif want(OK):
                e = o['e'].pop(a[1])
                if a[2]:
                    if not veq(e, A['v']):
                        P.append('%r handed over %r, model %r' % (self, A['v'], e))
                    if a[2] in m.V:
                        m.invalidate_under(m.V[a[2]])
                        old = m.V[a[2]]
                        for r in list(m.R):
                            if m.R[r] is old:
                                del m.R[r]
                    m.V[a[2]] = e      # ownership passes to the caller: references into it stay valid
                m.prune_refs()
        elif n == 'count':
            o = m.get(a[0])
            if o['k'] == 'list':
                if want(OK) and A['n'] != len(o['e']):
                    P.append('%r: %r, model %d' % (self, A, len(o['e'])))
            elif o['k'] == 'table':
                if want(OK) and A['n'] != len(o['i']):
                    P.append('%r: %r, model %d' % (self, A, len(o['i'])))
            else:
                want(ARG)
        elif n == 'setkey':
            o = m.get(a[0])
            if o['k'] != 'table':
                want(ARG)
            elif not key_valid(a[1]):
                want(INVALID_INDEX)
            elif want(OK):
                e = m.get(a[2])
                idx = [j for j, (k, _) in enumerate(o['i']) if nfc(k) == nfc(a[1])]
                if idx:
                    cur = o['i'][idx[0]][1]
                    o['i'][idx[0]][0] = a[1]          # most recently used spelling
                    if e is not cur:
                        # replaced in place as well (cif.h, cif_value_set_item_by_key)
                        m.invalidate_under(cur)
                        become(cur, copy.deepcopy(e) if e is not None else {'k': 'unk'})
                else:
                    o['i'].append([a[1], copy.deepcopy(e) if e is not None else {'k': 'unk'}])
        elif n == 'getkey':
            o = m.get(a[0])
            if o['k'] != 'table':
                want(ARG)
            else:
                idx = [j for j, (k, _) in enumerate(o['i']) if nfc(k) == nfc(a[1])]
                if not idx:
                    if rc not in (NOSUCH_ITEM, INVALID_INDEX) or (key_valid(a[1]) and rc != NOSUCH_ITEM):
                        P.append('%r returned %r, expected CIF_NOSUCH_ITEM' % (self, rc))
                elif want(OK):
                    if not veq(o['i'][idx[0]][1], A['v']):
                        P.append('%r delivered %r, model %r' % (self, A['v'], o['i'][idx[0]][1]))
                    m.R[a[2]] = o['i'][idx[0]][1]
        elif n == 'remkey':
            o = m.get(a[0])
            if o['k'] != 'table':
                want(ARG)
            else:
                idx = [j for j, (k, _) in enumerate(o['i']) if nfc(k) == nfc(a[1])]
                if not idx:
                    if rc not in (NOSUCH_ITEM, INVALID_INDEX) or (key_valid(a[1]) and rc != NOSUCH_ITEM):
                        P.append('%r returned %r, expected CIF_NOSUCH_ITEM' % (self, rc))
                elif want(OK):
                    k, e = o['i'].pop(idx[0])
                    if a[2]:
                        if not veq(e, A['v']):
                            P.append('%r handed over %r, model %r' % (self, A['v'], e))
                        if a[2] in m.V:
                            m.invalidate_under(m.V[a[2]])
                            old = m.V[a[2]]
                            for r in list(m.R):
                                if m.R[r] is old:
                                    del m.R[r]
                        m.V[a[2]] = e
                    m.prune_refs()
        elif n == 'keys':
            o = m.get(a[0])
            if o['k'] != 'table':
                want(ARG)
            elif want(OK):
                if sorted(A['keys']) != sorted(k for k, _ in o['i']):
                    P.append('%r: %r, model %r (most recently used spelling of each key)' % (self, A['keys'], [k for k, _ in o['i']]))
        elif n == 'pnew':
            names = a[0]
            if any(not valid_name(x) for x in names):
                want(INVALID_ITEMNAME)
            elif want(OK):
                m.P = []
                for x in names:
                    if not any(norm(ent[0]) == norm(x) for ent in m.P):
                        m.P.append([x, {'k': 'unk'}])
                m.prune_refs()
        elif n == 'pfree':
            m.P = None
            m.prune_refs()
        elif n == 'pset':
            if not valid_name(a[0]):
                want(INVALID_ITEMNAME)
            elif want(OK):
                e = m.get(a[1])
                idx = [j for j, ent in enumerate(m.P) if norm(ent[0]) == norm(a[0])]
                if idx:
                    cur = m.P[idx[0]][1]
                    if e is not cur:
                        m.invalidate_under(cur)
                        for r in list(m.R):
                            if m.R[r] is cur:
                                del m.R[r]
                        m.P[idx[0]][1] = copy.deepcopy(e) if e is not None else {'k': 'unk'}
                    m.P[idx[0]][0] = None if m.P[idx[0]][0] is None else m.P[idx[0]][0]
                    m.P[idx[0]].append(a[0])     # an alternative admissible spelling of the name
                else:
                    m.P.append([a[0], copy.deepcopy(e) if e is not None else {'k': 'unk'}])
        elif n == 'pget':
            idx = [j for j, p in enumerate(m.P) if norm(p[0]) == norm(a[0])] if valid_name(a[0]) else []
            if not idx:
                if rc not in (NOSUCH_ITEM, INVALID_ITEMNAME) or (valid_name(a[0]) and rc != NOSUCH_ITEM):
                    P.append('%r returned %r, expected CIF_NOSUCH_ITEM' % (self, rc))
            elif want(OK):
                if not veq(m.P[idx[0]][1], A['v']):
                    P.append('%r delivered %r, model %r' % (self, A['v'], m.P[idx[0]][1]))
                m.R[a[1]] = m.P[idx[0]][1]
        elif n == 'prem':
            idx = [j for j, p in enumerate(m.P) if norm(p[0]) == norm(a[0])] if valid_name(a[0]) else []
            if not idx:
                if rc not in (NOSUCH_ITEM, INVALID_ITEMNAME) or (valid_name(a[0]) and rc != NOSUCH_ITEM):
                    P.append('%r returned %r, expected CIF_NOSUCH_ITEM' % (self, rc))
            elif want(OK):
                ent = m.P.pop(idx[0])
                e = ent[1]
                if a[1]:
                    if not veq(e, A['v']):
                        P.append('%r handed over %r, model %r' % (self, A['v'], e))
                    if a[1] in m.V:
                        m.invalidate_under(m.V[a[1]])
                        old = m.V[a[1]]
                        for r in list(m.R):
                            if m.R[r] is old:
                                del m.R[r]
                    m.V[a[1]] = e
                m.prune_refs()
        return P


SLOTS = ['V0', 'V1']
KEYS = ['k', 'K', E1, E2, '', ' k', 'bad', '\u0958']      # the last one grows by one unit when normalised (composition exclusion)
PNAMES = ['_a', '_A', '_b', 'bad', '_' + E1, '_' + E2]


def enabled(m, rich):
    o = []
    for s in SLOTS:
        other = [x for x in SLOTS if x != s][0]
        if s not in m.V:
            for k in (CHAR, NUMB, LIST, TABLE, UNK):
                o.append(VOp('create', s, k))
            continue
        v = m.V[s]
        for k in (CHAR, LIST, TABLE, NA):
            o.append(VOp('init', s, k))
        o += [VOp('copychar', s, 'a'), VOp('initchar', s, ''), VOp('parsenumb', s, '1.5(2)'), VOp('parsenumb', s, '1.5('),
              VOp('clean', s), VOp('free', s), VOp('clone', s, other, False)]
        if other in m.V:
            o.append(VOp('clone', s, other, True))
        o += targets(m, s, v, other, rich)
    for r in ('R0', 'R1'):
        if r in m.R:
            v = m.R[r]
            o += [VOp('copychar', r, 'z'), VOp('init', r, LIST), VOp('init', r, TABLE), VOp('clean', r), VOp('parsenumb', r, '1.5(2)'),
                  VOp('clone', r, 'V1', False)]
            if 'V1' in m.V and not m.contains(m.V['V1'], v):
                o.append(VOp('clone', r, 'V1', True))
            o += targets(m, r, v, 'V0' if 'V0' in m.V and not m.contains(m.V['V0'], v) else None, rich, ref='R1' if r == 'R0' else 'R0')
    if m.P is None:
        o += [VOp('pnew', ('_a',)), VOp('pnew', ('_a', 'bad')), VOp('pnew', ())]
    else:
        for nme in PNAMES:
            for src in ('V0', None) + (('R0',) if 'R0' in m.R else ()):
                if src is None or m.get(src) is not None:
                    o.append(VOp('pset', nme, src))
            o.append(VOp('pget', nme, 'R0'))
            o.append(VOp('prem', nme, 'V1'))
        o.append(VOp('prem', '_a', None))
        o.append(VOp('pfree'))
    return o


def targets(m, tok, v, other, rich, ref='R0'):
    o = []
    srcs = [None]
    if other and other in m.V and not m.contains(m.V[other], v):
        srcs.append(other)
    if v['k'] == 'list':
        n = len(v['e'])
        for idx in sorted(set([0, n, n + 1])):
            for src in srcs:
                o.append(VOp('insel', tok, idx, src))
        o.append(VOp('insel', tok, 0, tok) if tok[0] == 'V' and False else VOp('count', tok))
        for idx in sorted(set([0, max(n - 1, 0), n])):
            for src in srcs:
                o.append(VOp('setel', tok, idx, src))
            o.append(VOp('getel', tok, idx, ref))
            o.append(VOp('remel', tok, idx, None))
            if other:
                o.append(VOp('remel', tok, idx, other))
        # the documented alias case, and a member copied to another position of its own list
        for r in ('R0', 'R1'):
            if r in m.R and any(e is m.R[r] for e in v['e']):
                j = [i for i, e in enumerate(v['e']) if e is m.R[r]][0]
                o.append(VOp('setel', tok, j, r))
                o.append(VOp('insel', tok, 0, r))
                if n > 1:
                    o.append(VOp('setel', tok, (j + 1) % n, r))
        if rich and n == 0:
            for cnt in (4, 5, 10, 11, 16, 17):
                o.append(VOp('insmany', tok, 0, None, cnt))
    else:
        o += [VOp('insel', tok, 0, None), VOp('getel', tok, 0, ref), VOp('setel', tok, 0, None), VOp('remel', tok, 0, None)]
        if v['k'] != 'table':
            o.append(VOp('count', tok))
    if v['k'] == 'table':
        for k in KEYS:
            kk = '' if k == 'bad' else k
            for src in srcs:
                o.append(VOp('setkey', tok, kk, src))
            o.append(VOp('getkey', tok, kk, ref))
            o.append(VOp('remkey', tok, kk, None))
        o.append(VOp('remkey', tok, 'k', other) if other else VOp('keys', tok))
        o.append(VOp('keys', tok))
        o.append(VOp('count', tok))
        for r in ('R0', 'R1'):
            if r in m.R:
                for k, e in v['i']:
                    if e is m.R[r]:
                        o.append(VOp('setkey', tok, k, r))
                        o.append(VOp('setkey', tok, 'other', r))
    else:
        o += [VOp('setkey', tok, 'k', None), VOp('getkey', tok, 'k', ref), VOp('remkey', tok, 'k', None), VOp('keys', tok)]
    return o


def replay_v(ex, hist, op, defaults):
    m = VM(defaults)
    lines = ['reset']
    seq = list(hist) + ([op] if op is not None else [])
    spans = []
    for o in seq:
        ls = o.lines()
        spans.append((len(lines), len(lines) + len(ls)))
        lines += ls
    ans = ex.run(lines)
    problems = []
    for i, o in enumerate(seq):
        a, b = spans[i]
        if any(not isinstance(x, dict) for x in ans[a:b]):
            return m, ['bad executor answer %r for %r' % (ans[a:b], o)], None
        p = o.apply(m, ans[a:b])
        if i == len(seq) - 1:
            problems = p
        elif p:
            return m, [], None
    # observe every live object
    ol = []
    for s in sorted(m.V):
        ol.append('val.dump %s' % s)
    for r in sorted(m.R):
        ol.append('val.dump %s' % r)
    if m.P is not None:
        ol.append('pkt.dump P0')
    obs = ex.run(ol) if ol else []
    j = 0
    for s in sorted(m.V):
        if not veq(m.V[s], obs[j]):
            problems.append('%s holds %s, model %s' % (s, json.dumps(obs[j]), json.dumps(m.V[s])))
        j += 1
    for r in sorted(m.R):
        if not veq(m.R[r], obs[j]):
            problems.append('member reference %s shows %s, model %s' % (r, json.dumps(obs[j]), json.dumps(m.R[r])))
        j += 1
    if m.P is not None:
        got = obs[j]
        ok = isinstance(got, list) and len(got) == len(m.P)
        if ok:
            for (gn, gv), ent in zip(got, m.P):
                if gn not in [x for x in ent[0:1] + ent[2:] if x is not None] or not veq(ent[1], gv):
                    ok = False
        if not ok:
            problems.append('packet holds %s, model %s (names in creation order, new names appended)' % (json.dumps(got), json.dumps(m.P)))
    key = json.dumps([[(s, m.V[s]) for s in sorted(m.V)], [(r, m.R[r], [k for k, v in m.V.items() if m.contains(v, m.R[r])]) for r in sorted(m.R)],
                      [p[:2] for p in m.P] if m.P is not None else None], sort_keys=True)
    return m, problems, key


def work(chunk, defaults, rich, cfg):
    out = []
    for hist in chunk:
        try:
            m, _, _ = replay_v(worker_exec(cfg), hist, None, defaults)
        except Crash as c:
            out.append((hist, None, None, ['executor died replaying an explored history: %s' % c.stderr[-1500:]]))
            continue
        for op in enabled(m, rich):
            try:
                m2, problems, key = replay_v(worker_exec(cfg), hist, op, defaults)
            except Crash as c:
                out.append((hist, op, None, ['sanitizer report / crash: %s\n%s' % (c, c.stderr[-2500:])]))
                continue
            out.append((hist, op, key, problems))
    return out


def main():
    tier = sys.argv[1] if len(sys.argv) > 1 else 'quick'
    rep = Report('C19', tier, 'model_checking')
    cfg = os.environ.get('C19_CFG', 'san')
    depth = int(os.environ.get('C19_DEPTH', 5 if tier == "quick" else 6))
    dl = deadline(tier, 900, 1500)
    ex = Exec(exe(cfg))
    a = ex.run(['reset', 'val.create V0 0', 'val.dump V0', 'val.create V1 1', 'val.dump V1', 'reset'])
    defaults = {'char': a[2], 'numb': a[4]}
    rc, err = ex.stop()
    if a[2].get('k') != 'char' or a[2].get('t') != '' or a[4].get('k') != 'numb' or a[4].get('num') != '0:0':
        rep.violation({'kind': 'defaults'}, {'char': a[2], 'numb': a[4], 'why': 'cif_value_create must give an empty string / an exact zero'})
    seen = set()
    frontier = [[]]
    st = {'states': 1, 'transitions': 0, 'depth_completed': 0, 'samples': []}
    exhaustive = True
    for d in range(1, depth + 1):
        if time.time() > dl:
            exhaustive = False
            break
        nxt = []
        chunks = list(chunked(frontier, max(1, min(20, len(frontier) // (NPROC * 4) + 1))))
        for res in pmap(work, chunks, (defaults, d <= 2, cfg)):
            if isinstance(res, dict):
                rep.violation({'kind': 'executor'}, res)
                continue
            for hist, op, key, problems in res:
                st['transitions'] += 1
                if problems:
                    kind = 'sanitizer' if 'sanitizer' in problems[0] else ('rc' if 'returned' in problems[0] else 'content')
                    rep.violation({'op': op.name if op else 'replay', 'kind': kind},
                                  {'history': [repr(o) for o in hist], 'op': repr(op), 'problems': problems[:4],
                                   'script': sum([o.lines() for o in hist + ([op] if op else [])], [])})
                    continue
                if key is not None and key not in seen:
                    seen.add(key)
                    nxt.append(hist + [op])
                    if len(st['samples']) < 3 and d >= 2:
                        st['samples'].append([repr(o) for o in hist + [op]])
        st['depth_completed'] = d
        frontier = nxt
    return rep.finish({'states': len(seen) + 1, 'transitions': st['transitions'], 'traces_validated_against_impl': st['transitions'],
                       'samples': st['samples'] or [['create(V0, LIST)']], 'depth_bound': depth, 'depth_completed': st['depth_completed'],
                       'build': cfg, 'exhaustive': exhaustive and st['depth_completed'] == depth,
                       'explanation': 'BFS over value/list/table/packet operations on 2 owned slots, 2 borrowed member references and a packet; every transition replays the history on the real library under ASan/UBSan and compares return code and the deep dump of every live object with an ownership-aware value model'},
                      ['references into a container are not used after a structural change of that container (the model drops them)',
                       'key order of tables is unspecified (compared as a set with the most recent spelling); packet names are compared in order'])


if __name__ == '__main__':
    sys.exit(main())
